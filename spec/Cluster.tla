------------------------------ MODULE Cluster ------------------------------
(***************************************************************************)
(* C05 - acknowledged messages survive crashes and fail-over, exactly      *)
(* once, everywhere.                                                       *)
(*                                                                         *)
(* What RobustIRC adds around hashicorp/raft, at the granularity of the    *)
(* code's own steps:                                                       *)
(*                                                                         *)
(*   api.handlePostMessage   duplicate test against the HANDLING node's    *)
(*                           applied state (ircServer.LastPostMessage),    *)
(*                           then proxy to the leader or propose           *)
(*   api.applyMessageWait    raft.Apply + wait: returns after commit AND   *)
(*                           FSM.Apply on the leader (hook H3)             *)
(*   FSM.Apply               one committed entry applied on one node (H2)  *)
(*   FSM.Snapshot / Restore  newest snapshot is durable; a restarted node  *)
(*                           restores it and replays the entries it holds  *)
(*   the bridge protocol     a client retries the SAME ClientMessageId on  *)
(*                           timeout / error / fail-over, maybe elsewhere  *)
(*                                                                         *)
(* ASSUMED (raft's own safety, not this repository's property): there is   *)
(* one growing committed sequence; committed entries are never lost or     *)
(* reordered while a majority of disks survives; an entry is committed     *)
(* only when a majority OF THE CONFIGURATION IN FORCE holds it; a node     *)
(* only becomes leader with the votes of such a majority, none of which    *)
(* holds more than the candidate (LeaderComplete is then an invariant TLC  *)
(* checks, not an assumption).  Raft's no-op entries are invisible to the  *)
(* FSM and are left out.                                                   *)
(*                                                                         *)
(* MEMBERSHIP (api.handleJoin / api.handlePart -> raft AddPeer/RemovePeer, *)
(* robustirc.go joinMaster, cmd/robustirc-removepeer):                     *)
(*   Join(n)    a fresh process n (empty -raftdir, started with -join)     *)
(*              POSTs /join; the request is proxied to the leader, which   *)
(*              APPENDS a configuration entry.  hashicorp/raft uses a      *)
(*              configuration from the moment it is appended: n counts for *)
(*              every quorum from here on, also for the commit of this     *)
(*              very entry.  Only one change at a time (the leader accepts *)
(*              a change only when the latest configuration is committed). *)
(*   Part(n)    same for POST /part; n stops counting at once.  A leader   *)
(*              that removes itself leads until the entry is committed,    *)
(*              then raft shuts down and main() terminates the process.    *)
(*              Never below two members (robustirc-removepeer refuses, and *)
(*              main() does not start a node that only knows itself).      *)
(*   CommitCfg  a majority of the NEW configuration holds the entry (and   *)
(*              therefore everything before it).  Committing any later     *)
(*              entry (Propose) commits the pending configuration as well. *)
(*   Elect      with an uncommitted configuration entry around, the new    *)
(*              leader either has it (it stays pending) or not (it is      *)
(*              rolled back; a joining process whose request failed exits).*)
(*   InstallSnapshot(n)  the entries n needs were compacted out of the     *)
(*              leader's raft log (raft.Config.TrailingLogs behind its     *)
(*              newest snapshot): the leader ships the snapshot over the   *)
(*              HTTP raft transport, FSM.Restore REPLACES n's state, the   *)
(*              log tail follows by Replicate.                             *)
(*   Retire(n)  "it is now safe to kill the process and remove the data".  *)
(*                                                                         *)
(* The constant F7 selects what the leader's duplicate test reads:         *)
(*   F7 = TRUE   as the code behaves: the APPLIED state of the node, which *)
(*               can lag behind what is committed (new leader right after  *)
(*               an election, FSM goroutine behind)                        *)
(*   F7 = FALSE  idealised: every committed entry the node holds           *)
(* With F7 = TRUE TLC finds the double application of an acknowledged      *)
(* post in two shapes, both reproduced on the real binaries by             *)
(* checks/c05.py:                                                          *)
(*   Cluster_f7.cfg   a retry reaches a NEW leader before that node        *)
(*                    applied the first, committed copy (DESIGN 7, F7)     *)
(*   Cluster_f7b.cfg  a request the client gave up on (variable `old`) and *)
(*                    its retry are both handled by ONE leader before      *)
(*                    either copy is applied (F7b)                         *)
(***************************************************************************)
EXTENDS Integers, Sequences, FiniteSets, TLC, Json, ClusterProps

CONSTANTS Nodes,            \* e.g. {1,2,3}
          Clients,          \* e.g. {1,2}; every client is one session, all in one channel
          MaxCmid,          \* posts per client; ClientMessageIds are 1..MaxCmid
          MaxKills, MaxSnaps, MaxLeaderChanges, MaxPauses, MaxFails,
          F7,               \* BOOLEAN, see above
          InitSize,         \* number of nodes in the initial configuration (the others join later)
          MaxJoins, MaxParts,
          Trailing          \* raft.Config.TrailingLogs: entries kept in the raft log behind a snapshot

None == 0
ASSUME None \notin Nodes

VARIABLES
  log,      \* the committed sequence: Seq([c : Clients, cmid : 1..MaxCmid])
  leader,   \* Nodes \cup {None}
  up,       \* up[n]     : process exists
  paused,   \* paused[n] : SIGSTOPped
  inc,      \* inc[n]    : incarnation (in-flight requests die with their process)
  held,     \* held[n]   : number of committed entries node n durably holds
  snap,     \* snap[n]   : index of node n's newest durable snapshot
  applied,  \* applied[n]: volatile; n has applied log[1..applied[n]]
  cur,      \* cur[c]    : ClientMessageId of c's current/last post (0: none yet)
  req,      \* req[c]    : the one outstanding HTTP request of client c
  old,      \* old[c]    : a request the client gave up on, still travelling / queued
            \*             at a (paused, slow) node; nobody waits for its answer
  acked,    \* set of [c, cmid] answered with success
  budget,   \* remaining fault budgets
  members,  \* the latest raft configuration: the set of voters
  pending,  \* the configuration entry that is appended but not yet committed (at most one)
  trunc,    \* trunc[n]  : entries 1..trunc[n] are gone from n's raft log (compacted behind a snapshot)
  hist      \* history of controllable steps (the fault schedule), not part of the VIEW

vars == <<log, leader, up, paused, inc, held, snap, applied, cur, req, old, acked, budget, members, pending, trunc, hist>>
view == <<log, leader, up, paused, inc, held, snap, applied, cur, req, old, acked, budget, members, pending, trunc>>

Idle == [st |-> "idle", node |-> None, inc |-> 0, idx |-> 0]
NoOld == [st |-> "none", node |-> None, inc |-> 0, cmid |-> 0]
\* kind: "none" | "join" | "part"; n: the node added/removed; by: the leader that appended
\* the entry; prev: the configuration it replaces
NoCfg == [kind |-> "none", n |-> None, by |-> None, prev |-> {}]

------------------------------------------------------------------------------
Applied(n) == SubSeq(log, 1, applied[n])

\* lastClientMessageId of session c in a sequence of applied entries (0: none)
LastCmidIn(l, c) ==
  LET idx == {i \in 1..Len(l) : l[i].c = c}
  IN  IF idx = {} THEN 0 ELSE l[CHOOSE i \in idx : \A j \in idx : j <= i].cmid

\* ircServer.LastPostMessage(session) on node n
LastPostMessage(n, c) == LastCmidIn(Applied(n), c)

\* the duplicate test of a node that is about to PROPOSE (c, cmid):
\* the code compares with the last ClientMessageId its FSM has APPLIED for the
\* session; the idealised node knows every committed entry it holds
ProposerSeen(n, c, cmid) ==
  IF F7 THEN LastPostMessage(n, c) = cmid
        ELSE \E i \in 1..held[n] : log[i] = [c |-> c, cmid |-> cmid]

Live(n) == up[n] /\ ~paused[n]
LiveNodes == {n \in Nodes : Live(n)}
MajorityOf(Q, M) == Q \subseteq M /\ 2 * Cardinality(Q) > Cardinality(M)
Majority(Q) == MajorityOf(Q, members)

\* Q can commit what the leader appends: live voters of the configuration in force, a
\* majority of it, each of which the leader can bring up to date from its raft LOG
\* (otherwise InstallSnapshot has to come first).  The leader itself writes the entry to
\* its own log before anything else; it counts only while it is a voter (a leader that
\* removes itself commits with the others' votes only).
Reachable(q) == q = leader \/ held[q] >= trunc[leader] \/ held[q] = Len(log)
Quorum(Q) == /\ Q \subseteq LiveNodes /\ Majority(Q)
             /\ (leader \in members => leader \in Q)
             /\ {q \in Q : ~Reachable(q)} = {}

SelfRemoval == pending.kind = "part" /\ pending.n = leader

\* raft commits in log order: whatever is committed, a pending configuration entry before
\* it is committed too.  A leader that has removed itself now steps down; raft shuts down
\* (ShutdownOnRemove) and main() ends the process ("Node removed from the network").
CommitPending ==
  /\ pending' = NoCfg
  /\ IF SelfRemoval
       THEN /\ leader' = None
            /\ up' = [up EXCEPT ![leader] = FALSE]
            /\ applied' = [applied EXCEPT ![leader] = 0]
       ELSE UNCHANGED <<leader, up, applied>>

Init ==
  /\ log = << >>
  /\ members \in {M \in SUBSET Nodes : Cardinality(M) = InitSize}
  /\ leader \in members
  /\ up = [n \in Nodes |-> n \in members]
  /\ paused = [n \in Nodes |-> FALSE]
  /\ inc = [n \in Nodes |-> IF n \in members THEN 1 ELSE 0]
  /\ pending = NoCfg
  /\ trunc = [n \in Nodes |-> 0]
  /\ held = [n \in Nodes |-> 0]
  /\ snap = [n \in Nodes |-> 0]
  /\ applied = [n \in Nodes |-> 0]
  /\ cur = [c \in Clients |-> 0]
  /\ req = [c \in Clients |-> Idle]
  /\ old = [c \in Clients |-> NoOld]
  /\ acked = {}
  /\ budget = [kills |-> MaxKills, snaps |-> MaxSnaps, lc |-> MaxLeaderChanges,
               pauses |-> MaxPauses, fails |-> MaxFails, joins |-> MaxJoins, parts |-> MaxParts]
  /\ hist = <<[a |-> "Init", n |-> leader, members |-> members]>>

H(r) == hist' = Append(hist, r)

cfgvars == <<members, pending, trunc>>

------------------------------------------------------------------------------
(* Clients (the bridge protocol)                                            *)

\* a new post; ClientMessageIds start at 1 (0 equals the initial marker)
Post(c, n) ==
  /\ req[c].st = "idle" /\ cur[c] < MaxCmid /\ up[n]
  /\ cur' = [cur EXCEPT ![c] = @ + 1]
  /\ req' = [req EXCEPT ![c] = [st |-> "sent", node |-> n, inc |-> inc[n], idx |-> 0]]
  /\ H([a |-> "Post", c |-> c, cmid |-> cur[c] + 1, n |-> n])
  /\ UNCHANGED <<old, log, leader, up, paused, inc, held, snap, applied, acked, budget, cfgvars>>

\* the client gives up on the outstanding request (timeout) ...
Timeout(c) ==
  /\ req[c].st \in {"sent", "proxied", "proposed"} /\ budget.fails > 0
  /\ budget' = [budget EXCEPT !.fails = @ - 1]
  /\ req' = [req EXCEPT ![c].st = "failed"]
  /\ old' = [old EXCEPT ![c] = IF req[c].st = "proposed" THEN @
                                ELSE [st |-> req[c].st, node |-> req[c].node, inc |-> req[c].inc, cmid |-> cur[c]]]
  /\ H([a |-> "Timeout", c |-> c, cmid |-> cur[c]])
  /\ UNCHANGED <<log, leader, up, paused, inc, held, snap, applied, cur, acked, cfgvars>>

\* ... or the process handling it is gone (connection error, 5xx from a proxy)
Lost(c) ==
  /\ req[c].st \in {"sent", "proxied", "proposed"}
  /\ (~up[req[c].node] \/ inc[req[c].node] # req[c].inc)
  /\ req' = [req EXCEPT ![c].st = "failed"]
  /\ UNCHANGED <<old, log, leader, up, paused, inc, held, snap, applied, cur, acked, budget, cfgvars, hist>>

\* the same ClientMessageId again, at any node
Retry(c, n) ==
  /\ req[c].st = "failed" /\ up[n]
  /\ req' = [req EXCEPT ![c] = [st |-> "sent", node |-> n, inc |-> inc[n], idx |-> 0]]
  /\ H([a |-> "Retry", c |-> c, cmid |-> cur[c], n |-> n])
  /\ UNCHANGED <<old, log, leader, up, paused, inc, held, snap, applied, cur, acked, budget, cfgvars>>

------------------------------------------------------------------------------
(* api.handlePostMessage                                                    *)

Alive(c) == LET n == req[c].node IN Live(n) /\ inc[n] = req[c].inc

Success(c) ==
  /\ acked' = acked \cup {[c |-> c, cmid |-> cur[c]]}
  /\ req' = [req EXCEPT ![c] = Idle]

\* "If we have already seen this message, we just reply with a canned response."
\* The test runs on whatever node handles the request, against ITS applied state
\* (also on a node that was removed from the network and lives on with a stale state,
\* and on a node that joined late and got its state by InstallSnapshot).
HandleDuplicate(c) ==
  /\ req[c].st \in {"sent", "proxied"} /\ Alive(c)
  /\ LastPostMessage(req[c].node, c) = cur[c]
  /\ Success(c)
  /\ H([a |-> "AckDup", c |-> c, cmid |-> cur[c], n |-> req[c].node])
  /\ UNCHANGED <<old, log, leader, up, paused, inc, held, snap, applied, cur, budget, cfgvars>>

\* not a duplicate here, and this node is not the leader: maybeProxyToLeader
HandleProxy(c) ==
  /\ req[c].st = "sent" /\ Alive(c)
  /\ LastPostMessage(req[c].node, c) # cur[c]
  /\ req[c].node # leader
  /\ IF leader # None /\ up[leader]
       THEN req' = [req EXCEPT ![c] = [st |-> "proxied", node |-> leader, inc |-> inc[leader], idx |-> 0]]
       ELSE req' = [req EXCEPT ![c].st = "failed"]     \* "No leader known" / proxy error
  /\ UNCHANGED <<old, log, leader, up, paused, inc, held, snap, applied, cur, acked, budget, cfgvars, hist>>

\* a proxied request arrives at a node that is no longer the leader: error
HandleStaleProxy(c) ==
  /\ req[c].st = "proxied" /\ Alive(c)
  /\ LastPostMessage(req[c].node, c) # cur[c]
  /\ req[c].node # leader
  /\ req' = [req EXCEPT ![c].st = "failed"]
  /\ UNCHANGED <<old, log, leader, up, paused, inc, held, snap, applied, cur, acked, budget, cfgvars, hist>>

\* the leader proposes; raft commits once a majority OF THE CONFIGURATION IN FORCE holds
\* the entry.  The duplicate test that guards this step is ProposerSeen (see F7).
Propose(c, Q) ==
  /\ req[c].st \in {"sent", "proxied"} /\ Alive(c)
  /\ req[c].node = leader
  /\ ~ProposerSeen(leader, c, cur[c])
  /\ Quorum(Q)
  /\ log' = Append(log, [c |-> c, cmid |-> cur[c]])
  /\ held' = [n \in Nodes |-> IF n \in Q \cup {leader} THEN Len(log) + 1 ELSE held[n]]
  /\ req' = [req EXCEPT ![c].st = "proposed", ![c].idx = Len(log) + 1]
  /\ CommitPending
  /\ UNCHANGED <<old, paused, inc, snap, cur, acked, budget, members, trunc, hist>>

\* idealised leader only: the entry is committed but not yet applied here
HandleCommittedDuplicate(c) ==
  /\ ~F7
  /\ req[c].st \in {"sent", "proxied"} /\ Alive(c)
  /\ req[c].node = leader
  /\ LastPostMessage(leader, c) # cur[c] /\ ProposerSeen(leader, c, cur[c])
  /\ Success(c)
  /\ H([a |-> "AckDup", c |-> c, cmid |-> cur[c], n |-> leader])
  /\ UNCHANGED <<old, log, leader, up, paused, inc, held, snap, applied, cur, budget, cfgvars>>

\* A request the client has given up on is still handled when it reaches a live
\* handler (the handler does not look at the request context): same code path,
\* but nobody reads the answer.
ZombieAlive(c) == LET n == old[c].node IN Live(n) /\ inc[n] = old[c].inc

ZombieDrop(c) ==
  /\ old[c].st # "none"
  /\ \/ ~up[old[c].node] \/ inc[old[c].node] # old[c].inc                   \* died with its process
     \/ ZombieAlive(c) /\ LastPostMessage(old[c].node, c) = old[c].cmid      \* canned response
     \/ ZombieAlive(c) /\ old[c].node # leader
          /\ (old[c].st = "proxied" \/ leader = None \/ (leader # None /\ ~up[leader]))   \* proxy error
     \/ ZombieAlive(c) /\ old[c].node = leader /\ ProposerSeen(leader, c, old[c].cmid)
  /\ old' = [old EXCEPT ![c] = NoOld]
  /\ UNCHANGED <<log, leader, up, paused, inc, held, snap, applied, cur, req, acked, budget, cfgvars, hist>>

ZombieProxy(c) ==
  /\ old[c].st = "sent" /\ ZombieAlive(c)
  /\ LastPostMessage(old[c].node, c) # old[c].cmid
  /\ old[c].node # leader /\ leader # None /\ up[leader]
  /\ old' = [old EXCEPT ![c].st = "proxied", ![c].node = leader, ![c].inc = inc[leader]]
  /\ UNCHANGED <<log, leader, up, paused, inc, held, snap, applied, cur, req, acked, budget, cfgvars, hist>>

ZombiePropose(c, Q) ==
  /\ old[c].st \in {"sent", "proxied"} /\ ZombieAlive(c)
  /\ old[c].node = leader
  /\ LastPostMessage(leader, c) # old[c].cmid
  /\ ~ProposerSeen(leader, c, old[c].cmid)
  /\ Quorum(Q)
  /\ log' = Append(log, [c |-> c, cmid |-> old[c].cmid])
  /\ held' = [n \in Nodes |-> IF n \in Q \cup {leader} THEN Len(log) + 1 ELSE held[n]]
  /\ old' = [old EXCEPT ![c] = NoOld]
  /\ CommitPending
  /\ UNCHANGED <<paused, inc, snap, cur, req, acked, budget, members, trunc, hist>>

\* applyMessageWait returned (hook H3 "api.applied" sits exactly here: committed
\* and applied on the proposing node, not yet acknowledged), the handler replies
Respond(c) ==
  /\ req[c].st = "proposed" /\ Alive(c)
  /\ applied[req[c].node] >= req[c].idx
  /\ Success(c)
  /\ H([a |-> "Ack", c |-> c, cmid |-> cur[c], n |-> req[c].node])
  /\ UNCHANGED <<old, log, leader, up, paused, inc, held, snap, applied, cur, budget, cfgvars>>

------------------------------------------------------------------------------
(* Nodes                                                                    *)

\* the nodes the leader replicates to: the voters of the latest configuration, and a
\* node that is being removed until it has the entry that removes it
Replicated == members \cup (IF pending.kind = "part" THEN {pending.n} ELSE {})

\* a follower receives the committed entries it misses - as long as the first one it
\* needs is still in the leader's raft log
Replicate(n) ==
  /\ Live(n) /\ leader # None /\ Live(leader) /\ n # leader /\ n \in Replicated
  /\ held[n] < Len(log)
  /\ held[n] >= trunc[leader]
  /\ held' = [held EXCEPT ![n] = Len(log)]
  /\ UNCHANGED <<log, leader, up, paused, inc, snap, applied, cur, req, old, acked, budget, cfgvars, hist>>

\* ... otherwise (raft replicateTo -> ErrLogNotFound -> sendLatestSnapshot, over
\* robustirc's HTTP raft transport): the leader's newest snapshot is stored on n and
\* FSM.Restore REPLACES n's state with it; n's own log is gone up to that point.
\* This is how a node that joins late gets its state.
InstallSnapshot(n) ==
  /\ Live(n) /\ leader # None /\ Live(leader) /\ n # leader /\ n \in Replicated
  /\ held[n] < trunc[leader]
  /\ held' = [held EXCEPT ![n] = snap[leader]]
  /\ snap' = [snap EXCEPT ![n] = snap[leader]]
  /\ applied' = [applied EXCEPT ![n] = snap[leader]]
  /\ trunc' = [trunc EXCEPT ![n] = snap[leader]]
  /\ UNCHANGED <<log, leader, up, paused, inc, cur, req, old, acked, budget, members, pending, hist>>

\* FSM.Apply: one entry
Apply(n) ==
  /\ Live(n) /\ applied[n] < held[n]
  /\ applied' = [applied EXCEPT ![n] = @ + 1]
  /\ UNCHANGED <<log, leader, up, paused, inc, held, snap, cur, req, old, acked, budget, cfgvars, hist>>

\* GET /snapshot: FSM.Snapshot + Persist, then raft compacts its log: everything up to
\* the snapshot goes, except the last `Trailing` entries (raft.compactLogs)
ForceSnapshot(n) ==
  /\ Live(n) /\ budget.snaps > 0 /\ applied[n] > snap[n]
  /\ snap' = [snap EXCEPT ![n] = applied[n]]
  /\ trunc' = [trunc EXCEPT ![n] =
                  LET upto == IF applied[n] < held[n] - Trailing THEN applied[n] ELSE held[n] - Trailing
                  IN  IF upto > @ THEN upto ELSE @]
  /\ budget' = [budget EXCEPT !.snaps = @ - 1]
  /\ H([a |-> "Snapshot", n |-> n])
  /\ UNCHANGED <<log, leader, up, paused, inc, held, applied, cur, req, old, acked, members, pending>>

\* "atgate": the process dies between applyMessageWait's return and the reply
AtAckGate(n) == \E c \in Clients : req[c].st = "proposed" /\ req[c].node = n
                                    /\ inc[n] = req[c].inc /\ applied[n] >= req[c].idx

\* SIGKILL: volatile state is lost, disks survive
Kill(n) ==
  /\ up[n] /\ budget.kills > 0
  /\ up' = [up EXCEPT ![n] = FALSE]
  /\ paused' = [paused EXCEPT ![n] = FALSE]
  /\ applied' = [applied EXCEPT ![n] = 0]
  /\ leader' = IF leader = n THEN None ELSE leader
  /\ budget' = [budget EXCEPT !.kills = @ - 1]
  /\ H([a |-> "Kill", n |-> n, wasleader |-> (leader = n), atgate |-> AtAckGate(n)])
  /\ UNCHANGED <<log, inc, held, snap, cur, req, old, acked, cfgvars>>

\* restart: FSM.Restore(newest snapshot), then the held entries are replayed by Apply
Restart(n) ==
  /\ ~up[n] /\ inc[n] > 0
  /\ (n \in members \/ pending.n = n)         \* a removed node's process is not started again
  /\ up' = [up EXCEPT ![n] = TRUE]
  /\ inc' = [inc EXCEPT ![n] = @ + 1]
  /\ applied' = [applied EXCEPT ![n] = snap[n]]
  /\ H([a |-> "Restart", n |-> n])
  /\ UNCHANGED <<log, leader, paused, held, snap, cur, req, old, acked, budget, cfgvars>>

Pause(n) ==
  /\ Live(n) /\ budget.pauses > 0
  /\ paused' = [paused EXCEPT ![n] = TRUE]
  /\ budget' = [budget EXCEPT !.pauses = @ - 1]
  /\ H([a |-> "Pause", n |-> n, wasleader |-> (leader = n)])
  /\ UNCHANGED <<log, leader, up, inc, held, snap, applied, cur, req, old, acked, cfgvars>>

Resume(n) ==
  /\ up[n] /\ paused[n]
  /\ paused' = [paused EXCEPT ![n] = FALSE]
  /\ H([a |-> "Resume", n |-> n])
  /\ UNCHANGED <<log, leader, up, inc, held, snap, applied, cur, req, old, acked, budget, cfgvars>>

\* raft elects n with the votes of a majority of the configuration the election runs
\* under; a node votes for n only if it holds no more than n does.  Free when there is no (reachable)
\* leader, budgeted otherwise.  An uncommitted configuration entry either is in n's log
\* (keep: the election ran under it, it stays pending and n will commit it) or is not
\* (the election ran under the previous configuration, the entry is discarded; the
\* process whose join request failed that way exits: robustirc.go joinMaster log.Fatal).
\* The leader that appended the entry has it for sure.
Elect(n, keep) ==
  LET M == IF keep THEN members ELSE pending.prev
      votes == {q \in LiveNodes \cap M : held[q] <= held[n]}
  IN
  /\ Live(n) /\ n # leader
  /\ (keep \/ (pending.kind # "none" /\ n # pending.by)) = TRUE
  /\ n \in M /\ MajorityOf(votes, M)
  /\ IF leader = None \/ ~Live(leader)
       THEN UNCHANGED budget
       ELSE budget.lc > 0 /\ budget' = [budget EXCEPT !.lc = @ - 1]
  /\ leader' = n
  /\ IF keep
       THEN UNCHANGED <<members, pending, up, applied>>
       ELSE /\ members' = pending.prev
            /\ pending' = NoCfg
            /\ IF pending.kind = "join"
                 THEN /\ up' = [up EXCEPT ![pending.n] = FALSE]
                      /\ applied' = [applied EXCEPT ![pending.n] = 0]
                 ELSE UNCHANGED <<up, applied>>
  /\ H([a |-> "LeaderChange", n |-> n, forced |-> (leader # None /\ Live(leader))])
  /\ UNCHANGED <<log, paused, inc, held, snap, trunc, cur, req, old, acked>>

ElectAny(n) == \E keep \in (IF pending.kind = "none" THEN {TRUE} ELSE BOOLEAN) : Elect(n, keep)

------------------------------------------------------------------------------
(* Membership                                                               *)

\* a fresh process n, started with -join=<peer>: POST /join reaches the leader (directly
\* or through maybeProxyToLeader), raftNode.AddPeer appends the configuration entry
Join(n) ==
  /\ budget.joins > 0
  /\ n \notin members /\ ~up[n]
  /\ pending.kind = "none"                    \* raft: only when the latest configuration is committed
  /\ leader # None /\ Live(leader)
  /\ members' = members \cup {n}
  /\ pending' = [kind |-> "join", n |-> n, by |-> leader, prev |-> members]
  /\ up' = [up EXCEPT ![n] = TRUE]
  /\ inc' = [inc EXCEPT ![n] = @ + 1]
  /\ held' = [held EXCEPT ![n] = 0]           \* empty -raftdir
  /\ snap' = [snap EXCEPT ![n] = 0]
  /\ trunc' = [trunc EXCEPT ![n] = 0]
  /\ applied' = [applied EXCEPT ![n] = 0]
  /\ budget' = [budget EXCEPT !.joins = @ - 1]
  /\ H([a |-> "Join", n |-> n])
  /\ UNCHANGED <<log, leader, paused, cur, req, old, acked>>

\* POST /part (robustirc-removepeer): raftNode.RemovePeer appends the configuration entry.
\* robustirc-removepeer refuses to go below three nodes ("cannot remove any more nodes or
\* the network will freeze"), and main() refuses to start a node whose configuration is
\* just itself ("Only known peer is myself ... this node was removed from the network"):
\* a network is never shrunk below two members.
Part(n) ==
  /\ budget.parts > 0
  /\ n \in members /\ Cardinality(members) > 2
  /\ pending.kind = "none"
  /\ leader # None /\ Live(leader)
  /\ members' = members \ {n}
  /\ pending' = [kind |-> "part", n |-> n, by |-> leader, prev |-> members]
  /\ budget' = [budget EXCEPT !.parts = @ - 1]
  /\ H([a |-> "Part", n |-> n, wasleader |-> (n = leader)])
  /\ UNCHANGED <<log, leader, up, paused, inc, held, snap, applied, trunc, cur, req, old, acked>>

\* the configuration entry is committed: the request is answered (the joining process
\* carries on / robustirc-removepeer reports success)
CommitCfg(Q) ==
  /\ pending.kind # "none" /\ leader # None /\ Live(leader)
  /\ Quorum(Q)
  /\ held' = [n \in Nodes |-> IF n \in Q THEN Len(log) ELSE held[n]]
  /\ CommitPending
  /\ H([a |-> "CfgDone", kind |-> pending.kind, n |-> pending.n])
  /\ UNCHANGED <<log, paused, inc, snap, trunc, cur, req, old, acked, budget, members>>

\* "It is now safe to kill the robustirc process on that node and remove the data."
Retire(n) ==
  /\ n \notin members /\ pending.n # n /\ inc[n] > 0
  /\ (up[n] \/ held[n] > 0 \/ snap[n] > 0)
  /\ up' = [up EXCEPT ![n] = FALSE]
  /\ paused' = [paused EXCEPT ![n] = FALSE]
  /\ applied' = [applied EXCEPT ![n] = 0]
  /\ held' = [held EXCEPT ![n] = 0]
  /\ snap' = [snap EXCEPT ![n] = 0]
  /\ trunc' = [trunc EXCEPT ![n] = 0]
  /\ H([a |-> "Retire", n |-> n])
  /\ UNCHANGED <<log, leader, inc, cur, req, old, acked, budget, members, pending>>

Next ==
  \/ \E c \in Clients, n \in Nodes : Post(c, n) \/ Retry(c, n)
  \/ \E c \in Clients : \/ Timeout(c) \/ Lost(c) \/ HandleDuplicate(c) \/ HandleProxy(c)
                        \/ HandleStaleProxy(c) \/ HandleCommittedDuplicate(c) \/ Respond(c)
                        \/ ZombieDrop(c) \/ ZombieProxy(c)
                        \/ \E Q \in SUBSET Nodes : Propose(c, Q) \/ ZombiePropose(c, Q)
  \/ \E n \in Nodes : \/ Replicate(n) \/ InstallSnapshot(n) \/ Apply(n) \/ ForceSnapshot(n) \/ Kill(n)
                      \/ Restart(n) \/ Pause(n) \/ Resume(n)
                      \/ Join(n) \/ Part(n) \/ Retire(n)
                      \/ ElectAny(n)
  \/ \E Q \in SUBSET Nodes : CommitCfg(Q)

Spec == Init /\ [][Next]_vars

NodeSymmetry == Permutations(Nodes)

------------------------------------------------------------------------------
(* Properties                                                               *)

TypeOK ==
  /\ leader \in Nodes \cup {None}
  /\ members \subseteq Nodes /\ members # {}
  /\ (leader # None => leader \in members \/ SelfRemoval)
  /\ \A n \in Nodes : /\ snap[n] <= held[n] /\ applied[n] <= held[n] /\ held[n] <= Len(log)
                      /\ trunc[n] <= snap[n]
  /\ \A c \in Clients : cur[c] \in 0..MaxCmid
  /\ acked \subseteq [c : Clients, cmid : 1..MaxCmid]

\* raft's election restriction - follows from the votes (Elect) and the commit rule (Quorum)
LeaderComplete == leader # None => held[leader] = Len(log)

\* every committed entry is durably held by a majority of the configuration: of the
\* latest one when it is committed, of the previous one while a change is pending.
\* This is what lets an acknowledged post survive when the quorum that acknowledged
\* it shrinks or grows afterwards.
CommittedOnMajority ==
  LET M == IF pending.kind = "none" THEN members ELSE pending.prev IN
  \A i \in 1..Len(log) : MajorityOf({n \in M : held[n] >= i}, M)

\* the committed sequence only grows (assumed of raft; AckedDurable rests on it)
LogGrows == [][IsPrefix(log, log')]_vars

\* one configuration change at a time, one server at a time
SingleServerChanges ==
  [][/\ Cardinality((members' \ members) \cup (members \ members')) <= 1
     /\ (members' # members => pending.kind = "none" \/ pending'.kind = "none")]_vars

AckedDurable == AckedDurableP(log, acked)

\* every node - member, late joiner, removed - applied a prefix of the one committed sequence
AppliedPrefixAgreement == \A n \in Nodes : IsPrefix(Applied(n), log)

\* for every session the sequences all nodes can serve are prefix-compatible
StreamsAgree ==
  \A s \in Clients : \A n1, n2 \in Nodes :
     PrefixCompatible(StreamOf(Applied(n1), s), StreamOf(Applied(n2), s))

AckedExactlyOnce == AckedExactlyOnceP(log, acked)
AckedInOrder == AckedInOrderP(log, acked)
AckedExactlyOnceInOrder == AckedExactlyOnce /\ AckedInOrder

\* an acknowledgement is only sent for something the answering node has applied
\* or (idealised leader) durably holds
AckOnlyAfterApply ==
  [][\A a \in acked' \ acked :
        \E n \in Nodes : Occurrences(SubSeq(log, 1, IF F7 THEN applied[n] ELSE held[n]), a) # {}]_vars

\* InstallSnapshot / restart hand a node exactly the state of a prefix of the committed
\* sequence: never ahead of what it durably holds, never behind its snapshot
RestoredStateIsPrefix ==
  [][\A n \in Nodes : applied'[n] # applied[n] /\ applied'[n] # applied[n] + 1 /\ applied'[n] # 0
        => applied'[n] = snap'[n] /\ snap'[n] <= held'[n]]_vars

\* after all faults healed and everything applied, every member serves the same
Quiescent == /\ pending.kind = "none"
             /\ \A n \in members : Live(n) /\ applied[n] = Len(log)
EqualAtQuiescence ==
  Quiescent => \A s \in Clients : \A n1, n2 \in members :
                  StreamOf(Applied(n1), s) = StreamOf(Applied(n2), s)

------------------------------------------------------------------------------
(* Getting fault schedules out of TLC (simulation): print the history of a  *)
(* behaviour when it is long enough or nothing is left to do.               *)

Done == /\ \A c \in Clients : cur[c] = MaxCmid /\ req[c].st = "idle"

Interesting == \/ budget.kills < MaxKills \/ budget.pauses < MaxPauses \/ budget.lc < MaxLeaderChanges
               \/ budget.joins < MaxJoins \/ budget.parts < MaxParts

\* with membership budgets, only behaviours that used them are emitted
EmitSchedule ==
  IF Done /\ Interesting /\ Len(hist) > 1
        /\ (MaxJoins + MaxParts > 0 => budget.joins < MaxJoins /\ pending.kind = "none")
    THEN PrintT(<<"BEHAVIOUR", ToJson(hist)>>) /\ FALSE
    ELSE TRUE
=============================================================================
