------------------------------ MODULE Cluster ------------------------------
(***************************************************************************)
(* C05 - acknowledged messages survive crashes and fail-over, exactly      *)
(* once, everywhere.                                                       *)
(*                                                                         *)
(* What RobustIRC adds around hashicorp/raft, at the granularity of the    *)
(* code's own steps:                                                       *)
(*                                                                         *)
(*   api.handlePostMessage   duplicate test against the HANDLING node's    *)
(*                           applied state (ircServer.LastPostMessage),    *)
(*                           then proxy to the leader or propose           *)
(*   api.applyMessageWait    raft.Apply + wait: returns after commit AND   *)
(*                           FSM.Apply on the leader (hook H3)             *)
(*   FSM.Apply               one committed entry applied on one node (H2)  *)
(*   FSM.Snapshot / Restore  newest snapshot is durable; a restarted node  *)
(*                           restores it and replays the entries it holds  *)
(*   the bridge protocol     a client retries the SAME ClientMessageId on  *)
(*                           timeout / error / fail-over, maybe elsewhere  *)
(*                                                                         *)
(* ASSUMED (raft's own safety, not this repository's property): there is   *)
(* one growing committed sequence; committed entries are never lost or     *)
(* reordered while a majority of disks survives; a node only becomes       *)
(* leader if it durably holds every committed entry; an entry is committed *)
(* only when a majority holds it.  Raft's internal entries (no-op,         *)
(* configuration) are invisible to the FSM and are left out.               *)
(*                                                                         *)
(* The constant F7 selects what the leader's duplicate test reads:         *)
(*   F7 = TRUE   as the code behaves: the APPLIED state of the node, which *)
(*               can lag behind what is committed (new leader right after  *)
(*               an election, FSM goroutine behind)                        *)
(*   F7 = FALSE  idealised: every committed entry the node holds           *)
(* With F7 = TRUE TLC finds the double application of an acknowledged      *)
(* post in two shapes, both reproduced on the real binaries by             *)
(* checks/c05.py:                                                          *)
(*   Cluster_f7.cfg   a retry reaches a NEW leader before that node        *)
(*                    applied the first, committed copy (DESIGN 7, F7)     *)
(*   Cluster_f7b.cfg  a request the client gave up on (variable `old`) and *)
(*                    its retry are both handled by ONE leader before      *)
(*                    either copy is applied (F7b)                         *)
(***************************************************************************)
EXTENDS Integers, Sequences, FiniteSets, TLC, Json, ClusterProps

CONSTANTS Nodes,            \* e.g. {1,2,3}
          Clients,          \* e.g. {1,2}; every client is one session, all in one channel
          MaxCmid,          \* posts per client; ClientMessageIds are 1..MaxCmid
          MaxKills, MaxSnaps, MaxLeaderChanges, MaxPauses, MaxFails,
          F7                \* BOOLEAN, see above

None == 0
ASSUME None \notin Nodes

VARIABLES
  log,      \* the committed sequence: Seq([c : Clients, cmid : 1..MaxCmid])
  leader,   \* Nodes \cup {None}
  up,       \* up[n]     : process exists
  paused,   \* paused[n] : SIGSTOPped
  inc,      \* inc[n]    : incarnation (in-flight requests die with their process)
  held,     \* held[n]   : number of committed entries node n durably holds
  snap,     \* snap[n]   : index of node n's newest durable snapshot
  applied,  \* applied[n]: volatile; n has applied log[1..applied[n]]
  cur,      \* cur[c]    : ClientMessageId of c's current/last post (0: none yet)
  req,      \* req[c]    : the one outstanding HTTP request of client c
  old,      \* old[c]    : a request the client gave up on, still travelling / queued
            \*             at a (paused, slow) node; nobody waits for its answer
  acked,    \* set of [c, cmid] answered with success
  budget,   \* remaining fault budgets
  hist      \* history of controllable steps (the fault schedule), not part of the VIEW

vars == <<log, leader, up, paused, inc, held, snap, applied, cur, req, old, acked, budget, hist>>
view == <<log, leader, up, paused, inc, held, snap, applied, cur, req, old, acked, budget>>

Idle == [st |-> "idle", node |-> None, inc |-> 0, idx |-> 0]
NoOld == [st |-> "none", node |-> None, inc |-> 0, cmid |-> 0]

------------------------------------------------------------------------------
Applied(n) == SubSeq(log, 1, applied[n])

\* lastClientMessageId of session c in a sequence of applied entries (0: none)
LastCmidIn(l, c) ==
  LET idx == {i \in 1..Len(l) : l[i].c = c}
  IN  IF idx = {} THEN 0 ELSE l[CHOOSE i \in idx : \A j \in idx : j <= i].cmid

\* ircServer.LastPostMessage(session) on node n
LastPostMessage(n, c) == LastCmidIn(Applied(n), c)

\* the duplicate test of a node that is about to PROPOSE (c, cmid):
\* the code compares with the last ClientMessageId its FSM has APPLIED for the
\* session; the idealised node knows every committed entry it holds
ProposerSeen(n, c, cmid) ==
  IF F7 THEN LastPostMessage(n, c) = cmid
        ELSE \E i \in 1..held[n] : log[i] = [c |-> c, cmid |-> cmid]

Live(n) == up[n] /\ ~paused[n]
Majority(Q) == 2 * Cardinality(Q) > Cardinality(Nodes)
LiveNodes == {n \in Nodes : Live(n)}

Init ==
  /\ log = << >>
  /\ leader \in Nodes
  /\ up = [n \in Nodes |-> TRUE]
  /\ paused = [n \in Nodes |-> FALSE]
  /\ inc = [n \in Nodes |-> 1]
  /\ held = [n \in Nodes |-> 0]
  /\ snap = [n \in Nodes |-> 0]
  /\ applied = [n \in Nodes |-> 0]
  /\ cur = [c \in Clients |-> 0]
  /\ req = [c \in Clients |-> Idle]
  /\ old = [c \in Clients |-> NoOld]
  /\ acked = {}
  /\ budget = [kills |-> MaxKills, snaps |-> MaxSnaps, lc |-> MaxLeaderChanges,
               pauses |-> MaxPauses, fails |-> MaxFails]
  /\ hist = <<[a |-> "Init", n |-> leader]>>

H(r) == hist' = Append(hist, r)

------------------------------------------------------------------------------
(* Clients (the bridge protocol)                                            *)

\* a new post; ClientMessageIds start at 1 (0 equals the initial marker)
Post(c, n) ==
  /\ req[c].st = "idle" /\ cur[c] < MaxCmid /\ up[n]
  /\ cur' = [cur EXCEPT ![c] = @ + 1]
  /\ req' = [req EXCEPT ![c] = [st |-> "sent", node |-> n, inc |-> inc[n], idx |-> 0]]
  /\ H([a |-> "Post", c |-> c, cmid |-> cur[c] + 1, n |-> n])
  /\ UNCHANGED <<old, log, leader, up, paused, inc, held, snap, applied, acked, budget>>

\* the client gives up on the outstanding request (timeout) ...
Timeout(c) ==
  /\ req[c].st \in {"sent", "proxied", "proposed"} /\ budget.fails > 0
  /\ budget' = [budget EXCEPT !.fails = @ - 1]
  /\ req' = [req EXCEPT ![c].st = "failed"]
  /\ old' = [old EXCEPT ![c] = IF req[c].st = "proposed" THEN @
                                ELSE [st |-> req[c].st, node |-> req[c].node, inc |-> req[c].inc, cmid |-> cur[c]]]
  /\ H([a |-> "Timeout", c |-> c, cmid |-> cur[c]])
  /\ UNCHANGED <<log, leader, up, paused, inc, held, snap, applied, cur, acked>>

\* ... or the process handling it is gone (connection error, 5xx from a proxy)
Lost(c) ==
  /\ req[c].st \in {"sent", "proxied", "proposed"}
  /\ (~up[req[c].node] \/ inc[req[c].node] # req[c].inc)
  /\ req' = [req EXCEPT ![c].st = "failed"]
  /\ UNCHANGED <<old, log, leader, up, paused, inc, held, snap, applied, cur, acked, budget, hist>>

\* the same ClientMessageId again, at any node
Retry(c, n) ==
  /\ req[c].st = "failed" /\ up[n]
  /\ req' = [req EXCEPT ![c] = [st |-> "sent", node |-> n, inc |-> inc[n], idx |-> 0]]
  /\ H([a |-> "Retry", c |-> c, cmid |-> cur[c], n |-> n])
  /\ UNCHANGED <<old, log, leader, up, paused, inc, held, snap, applied, cur, acked, budget>>

------------------------------------------------------------------------------
(* api.handlePostMessage                                                    *)

Alive(c) == LET n == req[c].node IN Live(n) /\ inc[n] = req[c].inc

Success(c) ==
  /\ acked' = acked \cup {[c |-> c, cmid |-> cur[c]]}
  /\ req' = [req EXCEPT ![c] = Idle]

\* "If we have already seen this message, we just reply with a canned response."
\* The test runs on whatever node handles the request, against ITS applied state.
HandleDuplicate(c) ==
  /\ req[c].st \in {"sent", "proxied"} /\ Alive(c)
  /\ LastPostMessage(req[c].node, c) = cur[c]
  /\ Success(c)
  /\ H([a |-> "AckDup", c |-> c, cmid |-> cur[c], n |-> req[c].node])
  /\ UNCHANGED <<old, log, leader, up, paused, inc, held, snap, applied, cur, budget>>

\* not a duplicate here, and this node is not the leader: maybeProxyToLeader
HandleProxy(c) ==
  /\ req[c].st = "sent" /\ Alive(c)
  /\ LastPostMessage(req[c].node, c) # cur[c]
  /\ req[c].node # leader
  /\ IF leader # None /\ up[leader]
       THEN req' = [req EXCEPT ![c] = [st |-> "proxied", node |-> leader, inc |-> inc[leader], idx |-> 0]]
       ELSE req' = [req EXCEPT ![c].st = "failed"]     \* "No leader known" / proxy error
  /\ UNCHANGED <<old, log, leader, up, paused, inc, held, snap, applied, cur, acked, budget, hist>>

\* a proxied request arrives at a node that is no longer the leader: error
HandleStaleProxy(c) ==
  /\ req[c].st = "proxied" /\ Alive(c)
  /\ LastPostMessage(req[c].node, c) # cur[c]
  /\ req[c].node # leader
  /\ req' = [req EXCEPT ![c].st = "failed"]
  /\ UNCHANGED <<old, log, leader, up, paused, inc, held, snap, applied, cur, acked, budget, hist>>

\* the leader proposes; raft commits once a majority holds the entry.
\* The duplicate test that guards this step is ProposerLast (see F7).
Propose(c, Q) ==
  /\ req[c].st \in {"sent", "proxied"} /\ Alive(c)
  /\ req[c].node = leader
  /\ ~ProposerSeen(leader, c, cur[c])
  /\ leader \in Q /\ Q \subseteq LiveNodes /\ Majority(Q)
  /\ log' = Append(log, [c |-> c, cmid |-> cur[c]])
  /\ held' = [n \in Nodes |-> IF n \in Q THEN Len(log) + 1 ELSE held[n]]
  /\ req' = [req EXCEPT ![c].st = "proposed", ![c].idx = Len(log) + 1]
  /\ UNCHANGED <<old, leader, up, paused, inc, snap, applied, cur, acked, budget, hist>>

\* idealised leader only: the entry is committed but not yet applied here
HandleCommittedDuplicate(c) ==
  /\ ~F7
  /\ req[c].st \in {"sent", "proxied"} /\ Alive(c)
  /\ req[c].node = leader
  /\ LastPostMessage(leader, c) # cur[c] /\ ProposerSeen(leader, c, cur[c])
  /\ Success(c)
  /\ H([a |-> "AckDup", c |-> c, cmid |-> cur[c], n |-> leader])
  /\ UNCHANGED <<old, log, leader, up, paused, inc, held, snap, applied, cur, budget>>

\* A request the client has given up on is still handled when it reaches a live
\* handler (the handler does not look at the request context): same code path,
\* but nobody reads the answer.
ZombieAlive(c) == LET n == old[c].node IN Live(n) /\ inc[n] = old[c].inc

ZombieDrop(c) ==
  /\ old[c].st # "none"
  /\ \/ ~up[old[c].node] \/ inc[old[c].node] # old[c].inc                   \* died with its process
     \/ ZombieAlive(c) /\ LastPostMessage(old[c].node, c) = old[c].cmid      \* canned response
     \/ ZombieAlive(c) /\ old[c].node # leader
          /\ (old[c].st = "proxied" \/ leader = None \/ (leader # None /\ ~up[leader]))   \* proxy error
     \/ ZombieAlive(c) /\ old[c].node = leader /\ ProposerSeen(leader, c, old[c].cmid)
  /\ old' = [old EXCEPT ![c] = NoOld]
  /\ UNCHANGED <<log, leader, up, paused, inc, held, snap, applied, cur, req, acked, budget, hist>>

ZombieProxy(c) ==
  /\ old[c].st = "sent" /\ ZombieAlive(c)
  /\ LastPostMessage(old[c].node, c) # old[c].cmid
  /\ old[c].node # leader /\ leader # None /\ up[leader]
  /\ old' = [old EXCEPT ![c].st = "proxied", ![c].node = leader, ![c].inc = inc[leader]]
  /\ UNCHANGED <<log, leader, up, paused, inc, held, snap, applied, cur, req, acked, budget, hist>>

ZombiePropose(c, Q) ==
  /\ old[c].st \in {"sent", "proxied"} /\ ZombieAlive(c)
  /\ old[c].node = leader
  /\ LastPostMessage(leader, c) # old[c].cmid
  /\ ~ProposerSeen(leader, c, old[c].cmid)
  /\ leader \in Q /\ Q \subseteq LiveNodes /\ Majority(Q)
  /\ log' = Append(log, [c |-> c, cmid |-> old[c].cmid])
  /\ held' = [n \in Nodes |-> IF n \in Q THEN Len(log) + 1 ELSE held[n]]
  /\ old' = [old EXCEPT ![c] = NoOld]
  /\ UNCHANGED <<leader, up, paused, inc, snap, applied, cur, req, acked, budget, hist>>

\* applyMessageWait returned (hook H3 "api.applied" sits exactly here: committed
\* and applied on the proposing node, not yet acknowledged), the handler replies
Respond(c) ==
  /\ req[c].st = "proposed" /\ Alive(c)
  /\ applied[req[c].node] >= req[c].idx
  /\ Success(c)
  /\ H([a |-> "Ack", c |-> c, cmid |-> cur[c], n |-> req[c].node])
  /\ UNCHANGED <<old, log, leader, up, paused, inc, held, snap, applied, cur, budget>>

------------------------------------------------------------------------------
(* Nodes                                                                    *)

\* a follower receives the committed entries it misses
Replicate(n) ==
  /\ Live(n) /\ leader # None /\ Live(leader) /\ n # leader
  /\ held[n] < Len(log)
  /\ held' = [held EXCEPT ![n] = Len(log)]
  /\ UNCHANGED <<log, leader, up, paused, inc, snap, applied, cur, req, old, acked, budget, hist>>

\* FSM.Apply: one entry
Apply(n) ==
  /\ Live(n) /\ applied[n] < held[n]
  /\ applied' = [applied EXCEPT ![n] = @ + 1]
  /\ UNCHANGED <<log, leader, up, paused, inc, held, snap, cur, req, old, acked, budget, hist>>

\* GET /snapshot: FSM.Snapshot + Persist
ForceSnapshot(n) ==
  /\ Live(n) /\ budget.snaps > 0 /\ applied[n] > snap[n]
  /\ snap' = [snap EXCEPT ![n] = applied[n]]
  /\ budget' = [budget EXCEPT !.snaps = @ - 1]
  /\ H([a |-> "Snapshot", n |-> n])
  /\ UNCHANGED <<log, leader, up, paused, inc, held, applied, cur, req, old, acked>>

\* "atgate": the process dies between applyMessageWait's return and the reply
AtAckGate(n) == \E c \in Clients : req[c].st = "proposed" /\ req[c].node = n
                                    /\ inc[n] = req[c].inc /\ applied[n] >= req[c].idx

\* SIGKILL: volatile state is lost, disks survive
Kill(n) ==
  /\ up[n] /\ budget.kills > 0
  /\ up' = [up EXCEPT ![n] = FALSE]
  /\ paused' = [paused EXCEPT ![n] = FALSE]
  /\ applied' = [applied EXCEPT ![n] = 0]
  /\ leader' = IF leader = n THEN None ELSE leader
  /\ budget' = [budget EXCEPT !.kills = @ - 1]
  /\ H([a |-> "Kill", n |-> n, wasleader |-> (leader = n), atgate |-> AtAckGate(n)])
  /\ UNCHANGED <<log, inc, held, snap, cur, req, old, acked>>

\* restart: FSM.Restore(newest snapshot), then the held entries are replayed by Apply
Restart(n) ==
  /\ ~up[n]
  /\ up' = [up EXCEPT ![n] = TRUE]
  /\ inc' = [inc EXCEPT ![n] = @ + 1]
  /\ applied' = [applied EXCEPT ![n] = snap[n]]
  /\ H([a |-> "Restart", n |-> n])
  /\ UNCHANGED <<log, leader, paused, held, snap, cur, req, old, acked, budget>>

Pause(n) ==
  /\ Live(n) /\ budget.pauses > 0
  /\ paused' = [paused EXCEPT ![n] = TRUE]
  /\ budget' = [budget EXCEPT !.pauses = @ - 1]
  /\ H([a |-> "Pause", n |-> n, wasleader |-> (leader = n)])
  /\ UNCHANGED <<log, leader, up, inc, held, snap, applied, cur, req, old, acked>>

Resume(n) ==
  /\ up[n] /\ paused[n]
  /\ paused' = [paused EXCEPT ![n] = FALSE]
  /\ H([a |-> "Resume", n |-> n])
  /\ UNCHANGED <<log, leader, up, inc, held, snap, applied, cur, req, old, acked, budget>>

\* raft elects n: it holds every committed entry and a majority can vote.
\* Free when there is no (reachable) leader, budgeted otherwise.
Elect(n) ==
  /\ Live(n) /\ n # leader /\ held[n] = Len(log) /\ Majority(LiveNodes)
  /\ IF leader = None \/ ~Live(leader)
       THEN UNCHANGED budget
       ELSE budget.lc > 0 /\ budget' = [budget EXCEPT !.lc = @ - 1]
  /\ leader' = n
  /\ H([a |-> "LeaderChange", n |-> n, forced |-> (leader # None /\ Live(leader))])
  /\ UNCHANGED <<log, up, paused, inc, held, snap, applied, cur, req, old, acked>>

Next ==
  \/ \E c \in Clients, n \in Nodes : Post(c, n) \/ Retry(c, n)
  \/ \E c \in Clients : \/ Timeout(c) \/ Lost(c) \/ HandleDuplicate(c) \/ HandleProxy(c)
                        \/ HandleStaleProxy(c) \/ HandleCommittedDuplicate(c) \/ Respond(c)
                        \/ ZombieDrop(c) \/ ZombieProxy(c)
                        \/ \E Q \in SUBSET Nodes : Propose(c, Q) \/ ZombiePropose(c, Q)
  \/ \E n \in Nodes : \/ Replicate(n) \/ Apply(n) \/ ForceSnapshot(n) \/ Kill(n)
                      \/ Restart(n) \/ Pause(n) \/ Resume(n) \/ Elect(n)

Spec == Init /\ [][Next]_vars

NodeSymmetry == Permutations(Nodes)

------------------------------------------------------------------------------
(* Properties                                                               *)

TypeOK ==
  /\ leader \in Nodes \cup {None}
  /\ \A n \in Nodes : snap[n] <= held[n] /\ applied[n] <= held[n] /\ held[n] <= Len(log)
  /\ \A c \in Clients : cur[c] \in 0..MaxCmid
  /\ acked \subseteq [c : Clients, cmid : 1..MaxCmid]

\* raft's election restriction, as assumed
LeaderComplete == leader # None => held[leader] = Len(log)

\* the committed sequence only grows (assumed of raft; AckedDurable rests on it)
LogGrows == [][IsPrefix(log, log')]_vars

AckedDurable == AckedDurableP(log, acked)

\* every node applied a prefix of the one committed sequence
AppliedPrefixAgreement == \A n \in Nodes : IsPrefix(Applied(n), log)

\* for every session the sequences all nodes can serve are prefix-compatible
StreamsAgree ==
  \A s \in Clients : \A n1, n2 \in Nodes :
     PrefixCompatible(StreamOf(Applied(n1), s), StreamOf(Applied(n2), s))

AckedExactlyOnce == AckedExactlyOnceP(log, acked)
AckedInOrder == AckedInOrderP(log, acked)
AckedExactlyOnceInOrder == AckedExactlyOnce /\ AckedInOrder

\* an acknowledgement is only sent for something the answering node has applied
\* or (idealised leader) durably holds
AckOnlyAfterApply ==
  [][\A a \in acked' \ acked :
        \E n \in Nodes : Occurrences(SubSeq(log, 1, IF F7 THEN applied[n] ELSE held[n]), a) # {}]_vars

\* after all faults healed and everything applied, every node serves the same
Quiescent == /\ \A n \in Nodes : Live(n) /\ applied[n] = Len(log)
EqualAtQuiescence ==
  Quiescent => \A s \in Clients : \A n1, n2 \in Nodes :
                  StreamOf(Applied(n1), s) = StreamOf(Applied(n2), s)

------------------------------------------------------------------------------
(* Getting fault schedules out of TLC (simulation): print the history of a  *)
(* behaviour when it is long enough or nothing is left to do.               *)

Done == /\ \A c \in Clients : cur[c] = MaxCmid /\ req[c].st = "idle"

Interesting == budget.kills < MaxKills \/ budget.pauses < MaxPauses \/ budget.lc < MaxLeaderChanges

EmitSchedule ==
  IF Done /\ Interesting /\ Len(hist) > 1
    THEN PrintT(<<"BEHAVIOUR", ToJson(hist)>>) /\ FALSE
    ELSE TRUE
=============================================================================
