\* exhaustive, quick tier: every sequence of 2 entries after prologues 2 and 3 (members in a channel; services link)
SPECIFICATION Spec
CONSTANTS
  NetName = "robustirc.net"
  MaxN = 2
  Families = {"reg", "member", "mode", "talk", "oper", "services", "entry", "addr", "time"}
  Prologues = {3}
INVARIANT NoFailure
VIEW View
CHECK_DEADLOCK FALSE
