---------------------------- MODULE RaftStoreSim ----------------------------
(***************************************************************************)
(* Simulation front end of RaftStore.tla (RaftStore_sim.cfg, -simulate).   *)
(*                                                                         *)
(* TLC's simulator chooses uniformly among the successor STATES, so with   *)
(* the existential Next of RaftStore.tla the operation kind with the most  *)
(* arguments would win every time.  Here every operation kind contributes  *)
(* one successor per step; its arguments are derived from a small linear   *)
(* congruential generator carried in the extra variable rng (TLC's         *)
(* RandomElement restarts its sequence at every step).  The simulator      *)
(* picks the initial rng and the operation kinds, seeded by -seed.         *)
(* 5 index ranks {1,2,4,6,7}, bounds 0..8, all terms, types, payloads,     *)
(* extensions and times, batches of 2 and 3 entries.                       *)
(***************************************************************************)
EXTENDS RaftStoreMC

VARIABLE rng

M == 65537
Lcg(r) == (r * 75 + 74) % M

R1 == Lcg(rng)
R2 == Lcg(R1)
R3 == Lcg(R2)
R4 == Lcg(R3)
R5 == Lcg(R4)
R6 == Lcg(R5)

Pick(seq, r) == seq[(r % Len(seq)) + 1]
BoundSeq == SortedSeq(Bounds)
BValSeq  == SortedSeq(BVals)
UValSeq  == SortedSeq(UVals)

\* half of the entries are commands (which must carry a robust message)
EntryOf(i, r, q) ==
    LET t0 == (r \div 5) % 10
        ty == IF t0 >= 6 THEN 0 ELSE t0
        d  == IF ty = 0 THEN 2 + (q % 4) ELSE 1 + (q % 7)
    IN  <<i, ((r \div 50) % 4) + 1, ty, d, (q \div 7) % 3, (q \div 21) % 6>>

E1 == EntryOf(Pick(IdxSeq, R1), R1, R2)
E2 == EntryOf(Pick(IdxSeq, R3), R3, R4)
E3 == EntryOf(Pick(IdxSeq, R5), R5, R6)

SimStep ==
    \/ \E e \in Encs : Open(e)
    \/ Close
    \/ Kill
    \/ StoreLog(E1)
    \/ StoreLog(E2)
    \/ StoreLogs(<<E1, E2>>)
    \/ StoreLogs(<<E1, EntryOf(Succ(E1[1]), R3, R4), EntryOf(Succ(Succ(E1[1])), R5, R6)>>)  \* as raft appends
    \/ StoreLogProto(<<E3[1], E3[2], E3[3], E3[4], E3[5], E3[6], IF R1 % 4 = 0 THEN 1 ELSE 0>>)
    \/ LET lo == Pick(BoundSeq, R2)  hi == Pick(BoundSeq, R4) IN
       IF lo > hi /\ R6 % 4 # 0 THEN DeleteRange(hi, lo) ELSE DeleteRange(lo, hi)
    \/ DeleteRange(R1 % 2, Pick(IdxSeq, R3))              \* a prefix, as log compaction does
    \/ Set(Pick(KeySeq, R1), Pick(BValSeq, R2))
    \/ SetUint64(Pick(KeySeq, R3), Pick(UValSeq, R4))
    \/ ConvertToProto

SimInit == Init /\ rng \in 1..4096
SimNext == SimStep /\ rng' = Lcg(R6)
SimSpec == SimInit /\ [][SimNext]_<<vars, rng>>

=============================================================================
