--------------------------- MODULE GetMessagesSim ---------------------------
(* Simulation front-end of GetMessages: prints every behaviour that reaches *)
(* depth D as JSON (history variable hist) for replay on the real code.     *)
EXTENDS GetMessages, Json

CONSTANT D

\* one random content per Add, so that Add does not crowd out the other actions
SimNewBatches == {RandomElement(BatchSet)}

\* Weighted next-state relation: plain uniform simulation spends its budget on
\* connect/disconnect churn; a coin makes Disconnect and Add rarer so that the
\* reader gets to run.  The stuttering disjunct pads finished behaviours so
\* that they reach depth D and get printed.
Coin(k) == RandomElement(1..k) = 1

SimNext ==
  \/ \E n \in Nodes : Coin(2) /\ Add(n)
  \/ \E n \in Nodes : Reconnect(n)
  \/ Reader
  \/ Recv
  \/ Coin(5) /\ Disconnect
  \/ UNCHANGED vars

SimSpec == Init /\ [][SimNext]_vars

Dump == TLCGet("level") < D \/ PrintT(ToJson(hist))
=============================================================================
