---------------------------- MODULE TimeGuardMC ----------------------------
(***************************************************************************)
(* TLC root module for TimeGuard: constant sets with negative numbers      *)
(* (a .cfg file cannot write them) and the behaviour dump used for the     *)
(* model -> code replay (BUILDER_GUIDE "Getting behaviours OUT of TLC").   *)
(***************************************************************************)
EXTENDS TimeGuard, TLC, Json

\* the exhaustive grid of DESIGN.md (unit = 500 ms, ET = 4 units = 2 s)
GridDeltas == -6..6
GridDelays == 0..5

\* reduced grid for calls with up to three peers: keeps every decision class
\* for both signs (in sync; conservative refusal; truly too far) and both
\* boundary values 3 (< ET) and 4 (= ET)
SmallDeltas == {-5, -4, -3, -1, 0, 2, 3, 4, 6}
SmallDelays == {0, 1, 3}

TinyDeltas == {-4, -3, 0, 3, 4}
TinyDelays == {0, 1}

\* Every finished call is printed once as one JSON line:
\*   C19CASE {"flag":..,"meas":[..],"verdict":..,"named":[..]}
\* (used as a state constraint that is always TRUE)
DumpFinished ==
    IF pc = "done"
    THEN PrintT("C19CASE " \o ToJson([flag |-> flag, meas |-> meas,
                                      verdict |-> verdict,
                                      named |-> {i \in 1..Len(meas) : i \in named}]))
    ELSE TRUE
=============================================================================
