#!/usr/bin/env python3
"""Replaces the table of DESIGN.md §11.6 with the output of tools/seedtable.py."""
import os
import re
import subprocess
import sys

HERE = os.path.dirname(os.path.dirname(os.path.abspath(__file__)))
p = os.path.join(HERE, "DESIGN.md")
s = open(p).read()
tab = subprocess.run([sys.executable, os.path.join(HERE, "tools", "seedtable.py")], stdout=subprocess.PIPE, text=True, check=True).stdout
m = re.search(r"(### 11\.6 [^\n]*\n\n)(\| seed \|.*?\n)(?=\n|\Z)", s, re.S)
assert m, "table not found"
s = s[:m.start(2)] + tab + s[m.end(2):]
open(p, "w").write(s)
print("rows:", tab.count("\n") - 2)
