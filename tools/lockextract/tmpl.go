package main

// Reflective reads made by html/template execution.
//
// The status handlers hand a struct to templates.ExecuteTemplate; the
// template text (embedded in internal/api/templates.go) decides which fields,
// maps and methods of that struct are read -- invisible to SSA.  The template
// set is parsed from the string literals of templates.go (current tree) and
// each template is walked with the static type and provenance of the data
// argument: ranging over / indexing / len() of a map or slice that still
// refers to shared storage is a read of that storage with the lockset held at
// the ExecuteTemplate call; methods called by the template are analysed like
// ordinary calls.

import (
	"go/ast"
	"go/token"
	"go/types"
	"strconv"
	"text/template/parse"

	"golang.org/x/tools/go/packages"
	"golang.org/x/tools/go/ssa"
)

type tmplSet struct {
	trees map[string]*parse.Tree
}

func loadTemplates(pkg *packages.Package) *tmplSet {
	ts := &tmplSet{trees: map[string]*parse.Tree{}}
	for _, f := range pkg.Syntax {
		ast.Inspect(f, func(n ast.Node) bool {
			call, ok := n.(*ast.CallExpr)
			if !ok || len(call.Args) != 1 {
				return true
			}
			sel, ok := call.Fun.(*ast.SelectorExpr)
			if !ok || sel.Sel.Name != "Parse" {
				return true
			}
			inner, ok := sel.X.(*ast.CallExpr)
			if !ok || len(inner.Args) != 1 {
				return true
			}
			isel, ok := inner.Fun.(*ast.SelectorExpr)
			if !ok || isel.Sel.Name != "New" {
				return true
			}
			nameLit, ok1 := inner.Args[0].(*ast.BasicLit)
			textLit, ok2 := call.Args[0].(*ast.BasicLit)
			if !ok1 || !ok2 || nameLit.Kind != token.STRING || textLit.Kind != token.STRING {
				return true
			}
			name, err1 := strconv.Unquote(nameLit.Value)
			text, err2 := strconv.Unquote(textLit.Value)
			if err1 != nil || err2 != nil {
				return true
			}
			t := parse.New(name)
			t.Mode = parse.SkipFuncCheck
			set := map[string]*parse.Tree{}
			if _, err := t.Parse(text, "", "", set); err == nil {
				for k, v := range set {
					ts.trees[k] = v
				}
			}
			return true
		})
	}
	return ts
}

func isTemplateExec(f *ssa.Function) bool {
	if f.Pkg == nil || f.Signature.Recv() == nil {
		return false
	}
	p := f.Pkg.Pkg.Path()
	return (p == "html/template" || p == "text/template") && (f.Name() == "ExecuteTemplate" || f.Name() == "Execute")
}

// tv: a template value = static type + provenance; fields: provenance of the
// fields of the root data struct as stored by the handler.
type tv struct {
	t      types.Type
	p      prov
	fields map[string]tv
}

type tmplWalk struct {
	in    *inst
	locks LockSet
	pos   token.Pos
	depth int
}

func (in *inst) templateExec(c *ssa.CallCommon, locks LockSet, pos token.Pos) {
	// args: recv, w, name, data   (ExecuteTemplate)   |   recv, w, data (Execute)
	if len(c.Args) < 4 {
		in.a.warn("template Execute without name in %s", in.a.fnName(in.fn))
		return
	}
	name, ok := constString(c.Args[2])
	if !ok {
		in.a.warn("non-constant template name in %s", in.a.fnName(in.fn))
		return
	}
	tree := in.a.tmpl.trees[name]
	if tree == nil {
		in.a.warn("template %q not found", name)
		return
	}
	data := c.Args[3]
	root := tv{}
	if mi, ok := data.(*ssa.MakeInterface); ok {
		root.t = mi.X.Type()
		root.p = in.prov(mi.X)
		// struct literal: *alloc loaded after per-field stores
		if ld, ok := mi.X.(*ssa.UnOp); ok && ld.Op == token.MUL {
			if al, ok := ld.X.(*ssa.Alloc); ok {
				root.fields = map[string]tv{}
				st, _ := deref(al.Type()).Underlying().(*types.Struct)
				for _, ref := range *al.Referrers() {
					fa, ok := ref.(*ssa.FieldAddr)
					if !ok || st == nil {
						continue
					}
					for _, r2 := range *fa.Referrers() {
						if s, ok := r2.(*ssa.Store); ok && s.Addr == fa {
							root.fields[st.Field(fa.Field).Name()] = tv{t: s.Val.Type(), p: in.prov(s.Val)}
						}
					}
				}
			}
		}
	} else {
		root.t = data.Type()
		root.p = in.prov(data)
	}
	w := &tmplWalk{in: in, locks: locks, pos: pos}
	w.list(tree.Root, root, map[string]tv{"$": root})
}

func (w *tmplWalk) list(l *parse.ListNode, dot tv, vars map[string]tv) {
	if l == nil {
		return
	}
	for _, n := range l.Nodes {
		w.node(n, dot, vars)
	}
}

func copyVars(v map[string]tv) map[string]tv {
	r := make(map[string]tv, len(v)+2)
	for k, x := range v {
		r[k] = x
	}
	return r
}

func (w *tmplWalk) node(n parse.Node, dot tv, vars map[string]tv) {
	switch n := n.(type) {
	case *parse.ActionNode:
		w.pipe(n.Pipe, dot, vars)
	case *parse.IfNode:
		w.pipe(n.Pipe, dot, vars)
		w.list(n.List, dot, copyVars(vars))
		w.list(n.ElseList, dot, copyVars(vars))
	case *parse.WithNode:
		v := w.pipe(n.Pipe, dot, vars)
		w.list(n.List, v, copyVars(vars))
		w.list(n.ElseList, dot, copyVars(vars))
	case *parse.RangeNode:
		vs := copyVars(vars)
		// evaluate the pipeline without binding its declarations
		decl := n.Pipe.Decl
		n.Pipe.Decl = nil
		coll := w.pipe(n.Pipe, dot, vars)
		n.Pipe.Decl = decl
		elem := w.rangeOver(coll)
		if len(decl) == 1 {
			vs[decl[0].Ident[0]] = elem
		} else if len(decl) == 2 {
			vs[decl[0].Ident[0]] = tv{}
			vs[decl[1].Ident[0]] = elem
		}
		w.list(n.List, elem, vs)
		w.list(n.ElseList, dot, copyVars(vars))
	case *parse.TemplateNode:
		if w.depth > 8 {
			return
		}
		sub := w.in.a.tmpl.trees[n.Name]
		if sub == nil {
			return
		}
		arg := dot
		if n.Pipe != nil {
			arg = w.pipe(n.Pipe, dot, vars)
		} else {
			arg = tv{}
		}
		w.depth++
		w.list(sub.Root, arg, map[string]tv{"$": arg})
		w.depth--
	case *parse.ListNode:
		w.list(n, dot, vars)
	}
}

func (w *tmplWalk) pipe(p *parse.PipeNode, dot tv, vars map[string]tv) tv {
	if p == nil {
		return tv{}
	}
	var val tv
	have := false
	for _, cmd := range p.Cmds {
		var piped *tv
		if have {
			v := val
			piped = &v
		}
		val = w.cmd(cmd, dot, vars, piped)
		have = true
	}
	for _, d := range p.Decl {
		vars[d.Ident[0]] = val
	}
	return val
}

func (w *tmplWalk) cmd(c *parse.CommandNode, dot tv, vars map[string]tv, piped *tv) tv {
	if len(c.Args) == 0 {
		return tv{}
	}
	if id, ok := c.Args[0].(*parse.IdentifierNode); ok {
		// function call: every argument is read by the function
		var args []tv
		for _, a := range c.Args[1:] {
			args = append(args, w.arg(a, dot, vars))
		}
		if piped != nil {
			args = append(args, *piped)
		}
		for _, a := range args {
			w.readWhole(a)
		}
		_ = id
		return tv{}
	}
	v := w.arg(c.Args[0], dot, vars)
	// further args / piped value would be method arguments: read them
	for _, a := range c.Args[1:] {
		w.readWhole(w.arg(a, dot, vars))
	}
	if piped != nil {
		w.readWhole(*piped)
	}
	return v
}

func (w *tmplWalk) arg(n parse.Node, dot tv, vars map[string]tv) tv {
	switch n := n.(type) {
	case *parse.DotNode:
		return dot
	case *parse.FieldNode:
		return w.chain(dot, n.Ident)
	case *parse.VariableNode:
		v := vars[n.Ident[0]]
		return w.chain(v, n.Ident[1:])
	case *parse.ChainNode:
		return w.chain(w.arg(n.Node, dot, vars), n.Field)
	case *parse.PipeNode:
		return w.pipe(n, dot, copyVars(vars))
	}
	return tv{}
}

func (w *tmplWalk) chain(v tv, idents []string) tv {
	for _, id := range idents {
		v = w.field(v, id)
	}
	// printing a value reads it
	return v
}

// readWhole: the value is consumed (printed / len / printf): a map or slice
// that refers to shared storage is read.
func (w *tmplWalk) readWhole(v tv) {
	if v.t == nil {
		return
	}
	switch v.t.Underlying().(type) {
	case *types.Map, *types.Slice:
		if v.p.kind == pVal {
			w.in.record(v.p.class, 'R', w.locks, w.pos)
		}
	}
}

func (w *tmplWalk) elemOf(c string, t types.Type) tv {
	return tv{t: t, p: w.in.loadedFrom(c, t)}
}

func (w *tmplWalk) byType(t types.Type) tv {
	if name, _ := w.in.a.repoStruct(t); name != "" {
		return tv{t: t, p: prov{pStructVal, name}}
	}
	return tv{t: t}
}

func (w *tmplWalk) rangeOver(coll tv) tv {
	if coll.t == nil {
		return tv{}
	}
	var et types.Type
	switch u := coll.t.Underlying().(type) {
	case *types.Map:
		et = u.Elem()
	case *types.Slice:
		et = u.Elem()
	case *types.Array:
		et = u.Elem()
	default:
		return tv{}
	}
	if coll.p.kind == pVal {
		w.in.record(coll.p.class, 'R', w.locks, w.pos)
		return w.elemOf(coll.p.class, et)
	}
	if coll.p.kind == pFreshColl {
		return tv{t: et, p: prov{pStructVal, coll.p.class}}
	}
	return w.byType(et)
}

func (w *tmplWalk) field(v tv, name string) tv {
	if v.t == nil {
		return tv{}
	}
	a := w.in.a
	// method?
	if m := w.method(v, name); m != nil {
		recvProv := v.p
		if _, isPtr := m.Signature.Recv().Type().Underlying().(*types.Pointer); isPtr {
			if _, vIsPtr := v.t.Underlying().(*types.Pointer); !vIsPtr {
				recvProv = prov{kind: pFresh} // address of the template's private copy
			}
		}
		s := a.analyze(m, w.locks, []prov{recvProv})
		if !s.inProgress && w.in.emit {
			for f := range s.reach {
				w.in.reach[f] = true
			}
			w.in.events = append(w.in.events, s.events...)
		}
		if m.Signature.Results().Len() > 0 {
			return tv{t: m.Signature.Results().At(0).Type(), p: s.ret}
		}
		return tv{}
	}
	if mp, ok := v.t.Underlying().(*types.Map); ok {
		// .Key on a map: index
		if v.p.kind == pVal {
			w.in.record(v.p.class, 'R', w.locks, w.pos)
			return w.elemOf(v.p.class, mp.Elem())
		}
		if v.p.kind == pFreshColl {
			return tv{t: mp.Elem(), p: prov{pStructVal, v.p.class}}
		}
		return w.byType(mp.Elem())
	}
	isPtr := false
	st := v.t
	if p, ok := v.t.Underlying().(*types.Pointer); ok {
		isPtr = true
		st = p.Elem()
	}
	s, ok := st.Underlying().(*types.Struct)
	if !ok {
		return tv{}
	}
	var fld *types.Var
	for k := 0; k < s.NumFields(); k++ {
		if s.Field(k).Name() == name {
			fld = s.Field(k)
		}
	}
	if fld == nil {
		return tv{}
	}
	ft := fld.Type()
	if v.fields != nil {
		if fv, ok := v.fields[name]; ok {
			fv.t = ft
			return fv
		}
	}
	tname, _ := a.repoStruct(st)
	if isPtr {
		if v.p.kind == pFresh {
			return tv{t: ft, p: v.p}
		}
		if tname != "" && !isSyncType(ft) {
			c := tname + "." + name
			w.in.record(c, 'R', w.locks, w.pos)
			return tv{t: ft, p: w.in.loadedFrom(c, ft)}
		}
		if v.p.kind == pVal {
			w.in.record(v.p.class, 'R', w.locks, w.pos)
			return tv{t: ft, p: w.in.loadedFrom(v.p.class, ft)}
		}
		return w.byType(ft)
	}
	// struct value (a copy)
	if v.p.kind == pStructVal {
		return tv{t: ft, p: w.in.structValField(v.p.class, name, ft)}
	}
	return w.byType(ft)
}

func (w *tmplWalk) method(v tv, name string) *ssa.Function {
	prog := w.in.a.prog
	for _, t := range []types.Type{v.t, types.NewPointer(v.t)} {
		if _, isIface := t.Underlying().(*types.Interface); isIface {
			continue
		}
		ms := prog.MethodSets.MethodSet(t)
		for k := 0; k < ms.Len(); k++ {
			sel := ms.At(k)
			if sel.Obj().Name() == name {
				f := prog.MethodValue(sel)
				if f != nil && w.in.a.isRepoFunc(f) {
					if f.Synthetic != "" {
						// wrapper for promoted/pointer method: use the declared one
						if fn, ok := sel.Obj().(*types.Func); ok {
							if d := prog.FuncValue(fn); d != nil {
								return d
							}
						}
					}
					return f
				}
			}
		}
	}
	return nil
}
