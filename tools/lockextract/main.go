// lockextract computes, from the CURRENT source tree of robustirc, the step
// lists (acquire / release / critical section with its read and write sets)
// of every operation the running system executes concurrently, and writes
// them as a TLA+ module (root module for spec/Locks.tla) plus a JSON file for
// the check driver.  See analyze.go for the analysis.
//
// Loading: go/packages + go/ssa (golang.org/x/tools from the module cache),
// run with Dir = the repository, so the repository's own go.mod resolves its
// dependencies offline.
package main

import (
	"encoding/json"
	"flag"
	"fmt"
	"go/types"
	"log"
	"os"
	"sort"
	"strings"

	"golang.org/x/tools/go/packages"
	"golang.org/x/tools/go/ssa"
	"golang.org/x/tools/go/ssa/ssautil"
)

const modPath = "github.com/robustirc/robustirc"

type opSpec struct {
	name    string
	fn      *ssa.Function
	threads []string // fixed thread classes (entry points); nil: derive by reachability
	role    string   // "" or "@log": LevelDBStore instance used by the raft library
	kind    string   // entry | method
	filter  map[*ssa.BasicBlock]bool
}

type accOut struct {
	Class string   `json:"class"`
	RW    string   `json:"rw"`
	Pos   []string `json:"pos"`
	Fns   []string `json:"fns"`
}

type segOut struct {
	ID    int         `json:"id"`
	Locks [][2]string `json:"locks"`
	Acc   []*accOut   `json:"acc"`
}

type stepOut struct {
	K   string `json:"k"`
	L   string `json:"l,omitempty"`
	M   string `json:"m,omitempty"`
	Seg int    `json:"seg,omitempty"`
}

type opOut struct {
	Name    string    `json:"name"`
	Func    string    `json:"func"`
	Kind    string    `json:"kind"`
	Threads []string  `json:"threads"`
	Segs    []*segOut `json:"segs"`
	Steps   []stepOut `json:"steps"`
	Reach   []string  `json:"reach,omitempty"`
	Index   int       `json:"index"`
}

func main() {
	repo := flag.String("repo", "/repo", "repository working tree")
	outTLA := flag.String("tla", "", "output TLA+ module path")
	outJSON := flag.String("json", "", "output JSON path")
	module := flag.String("module", "LocksOps", "TLA+ module name")
	overlay := flag.String("overlay", "", "JSON file {absolute source path: replacement file}: analyse the tree with these files replaced")
	flag.Parse()

	cfg := &packages.Config{Mode: packages.LoadAllSyntax, Dir: *repo, Env: os.Environ()}
	if *overlay != "" {
		raw, err := os.ReadFile(*overlay)
		if err != nil {
			log.Fatal(err)
		}
		m := map[string]string{}
		if err := json.Unmarshal(raw, &m); err != nil {
			log.Fatal(err)
		}
		cfg.Overlay = map[string][]byte{}
		for k, v := range m {
			b, err := os.ReadFile(v)
			if err != nil {
				log.Fatal(err)
			}
			cfg.Overlay[k] = b
		}
	}
	pats := []string{".", "./internal/api", "./internal/ircserver", "./internal/outputstream", "./internal/raftstore"}
	pkgs, err := packages.Load(cfg, pats...)
	if err != nil {
		log.Fatalf("load: %v", err)
	}
	if n := packages.PrintErrors(pkgs); n > 0 {
		log.Fatalf("%d package errors", n)
	}
	prog, spkgs := ssautil.AllPackages(pkgs, ssa.InstantiateGenerics)
	prog.Build()

	a := &Analyzer{prog: prog, fset: prog.Fset, repoDir: strings.TrimRight(*repo, "/"),
		repoPkgs: map[string]bool{}, shortPkg: map[string]string{}, memo: map[string]*summary{},
		warnings: map[string]int{}, dynRes: map[string][]string{}, goTargets: map[string]bool{}}
	byShort := map[string]*ssa.Package{}
	var apiPkg *packages.Package
	for k, p := range pkgs {
		path := p.PkgPath
		short := path[strings.LastIndex(path, "/")+1:]
		if path == modPath {
			short = "main"
		}
		a.repoPkgs[path] = true
		a.shortPkg[path] = short
		byShort[short] = spkgs[k]
		if short == "api" {
			apiPkg = p
		}
	}
	for _, need := range []string{"main", "api", "ircserver", "outputstream", "raftstore"} {
		if byShort[need] == nil {
			log.Fatalf("package %s not loaded", need)
		}
	}
	a.tmpl = loadTemplates(apiPkg)
	for f := range ssautil.AllFunctions(prog) {
		if a.isRepoFunc(f) {
			a.allFuncs = append(a.allFuncs, f)
		}
	}
	sort.Slice(a.allFuncs, func(i, j int) bool { return a.allFuncs[i].String() < a.allFuncs[j].String() })

	// Dispatch* are analysed without their handlers (each handler is an
	// operation of its own).
	a.stopAt = func(caller, callee *ssa.Function) bool {
		return strings.HasPrefix(caller.Name(), "Dispatch") && strings.HasPrefix(callee.Name(), "handle")
	}

	methodsOf := func(pkg *ssa.Package, typ string) []*ssa.Function {
		m := pkg.Members[typ]
		t, ok := m.(*ssa.Type)
		if !ok {
			log.Fatalf("type %s not found in %s", typ, pkg.Pkg.Path())
		}
		var res []*ssa.Function
		seen := map[*ssa.Function]bool{}
		for _, ty := range []types.Type{t.Type(), types.NewPointer(t.Type())} {
			ms := prog.MethodSets.MethodSet(ty)
			for k := 0; k < ms.Len(); k++ {
				obj, ok := ms.At(k).Obj().(*types.Func)
				if !ok {
					continue
				}
				f := prog.FuncValue(obj)
				if f != nil && f.Blocks != nil && !seen[f] && a.isRepoFunc(f) {
					seen[f] = true
					res = append(res, f)
				}
			}
		}
		sort.Slice(res, func(i, j int) bool { return res[i].Name() < res[j].Name() })
		return res
	}

	var specs []*opSpec
	mainPkg := byShort["main"]
	// --- entry points of package main
	for _, m := range methodsOf(mainPkg, "FSM") {
		switch m.Name() {
		case "Apply", "Snapshot", "Restore":
			specs = append(specs, &opSpec{name: "FSM." + m.Name(), fn: m, threads: []string{"fsm"}, kind: "entry"})
		}
	}
	for _, m := range methodsOf(mainPkg, "robustSnapshot") {
		if m.Name() == "Persist" {
			specs = append(specs, &opSpec{name: "robustSnapshot.Persist", fn: m, threads: []string{"snap"}, kind: "entry"})
		}
	}
	if f := mainPkg.Func("dumpLogToDisk1"); f != nil {
		specs = append(specs, &opSpec{name: "main.dumpLogToDisk1", fn: f, threads: []string{"bg"}, kind: "entry"})
	}
	if initf := mainPkg.Func("init"); initf != nil {
		for _, af := range initf.AnonFuncs {
			// closures of package-level initialisers (prometheus GaugeFuncs
			// called by the /metrics handler)
			specs = append(specs, &opSpec{name: "main." + af.Name(), fn: af, threads: []string{"http"}, kind: "entry"})
		}
	}
	if mf := mainPkg.Func("main"); mf != nil {
		if loop := selectLoop(mf); len(loop) > 0 {
			specs = append(specs, &opSpec{name: "main.mainLoop", fn: mf, threads: []string{"main"}, kind: "entry", filter: loop})
		} else {
			a.warn("main.main: steady-state select loop not found")
		}
	}
	// --- entry points of package api
	apiS := byShort["api"]
	entryFn := map[*ssa.Function]bool{}
	for _, m := range methodsOf(apiS, "HTTP") {
		n := m.Name()
		if strings.HasPrefix(n, "handle") || strings.HasPrefix(n, "Dispatch") || n == "getMessages" || n == "pingTicker" {
			specs = append(specs, &opSpec{name: "HTTP." + n, fn: m, threads: []string{"http"}, kind: "entry"})
			entryFn[m] = true
		}
	}
	for _, m := range methodsOf(apiS, "GetMessagesStats") {
		specs = append(specs, &opSpec{name: "GetMessagesStats." + m.Name(), fn: m, threads: []string{"http"}, kind: "entry"})
		entryFn[m] = true
	}
	// --- public operations (threads derived from the entry points reaching them)
	for _, m := range methodsOf(apiS, "HTTP") {
		if !entryFn[m] {
			specs = append(specs, &opSpec{name: "HTTP." + m.Name(), fn: m, kind: "method"})
		}
	}
	for _, tn := range [][2]string{{"ircserver", "IRCServer"}, {"outputstream", "OutputStream"}, {"raftstore", "LevelDBStore"}} {
		for _, m := range methodsOf(byShort[tn[0]], tn[1]) {
			if m.Object() != nil && m.Object().Exported() {
				specs = append(specs, &opSpec{name: tn[1] + "." + m.Name(), fn: m, kind: "method"})
			}
		}
	}
	// --- the LevelDBStore instance handed to the raft library (log + stable
	// store): the methods of raft.LogStore and raft.StableStore, called from
	// the library's goroutines
	raftIfaceMethods := map[string]bool{}
	for _, p := range prog.AllPackages() {
		if p.Pkg.Path() == "github.com/hashicorp/raft" {
			for _, in := range []string{"LogStore", "StableStore"} {
				if o := p.Pkg.Scope().Lookup(in); o != nil {
					if it, ok := o.Type().Underlying().(*types.Interface); ok {
						for k := 0; k < it.NumMethods(); k++ {
							raftIfaceMethods[it.Method(k).Name()] = true
						}
					}
				}
			}
		}
	}
	for _, m := range methodsOf(byShort["raftstore"], "LevelDBStore") {
		if raftIfaceMethods[m.Name()] {
			specs = append(specs, &opSpec{name: "LevelDBStore@log." + m.Name(), fn: m, threads: []string{"raft"}, role: "@log", kind: "method"})
		}
	}

	// --- analyse
	type analysed struct {
		spec *opSpec
		sum  *summary
		ev   []Access
	}
	var res []*analysed
	for _, sp := range specs {
		args := make([]prov, len(sp.fn.Params))
		var s *summary
		if sp.filter != nil {
			a.rootFilter, a.rootFilterFn = sp.filter, sp.fn
			s = a.analyze(sp.fn, nil, args)
			a.rootFilter, a.rootFilterFn = nil, nil
		} else {
			s = a.analyze(sp.fn, nil, args)
		}
		res = append(res, &analysed{spec: sp, sum: s, ev: s.events})
	}
	// threads by reachability
	for _, r := range res {
		if r.spec.threads != nil {
			continue
		}
		set := map[string]bool{}
		for _, e := range res {
			if e.spec.kind == "entry" && e.sum.reach[r.spec.fn] && e.spec.fn != r.spec.fn {
				for _, t := range e.spec.threads {
					set[t] = true
				}
			}
		}
		for t := range set {
			r.spec.threads = append(r.spec.threads, t)
		}
		sort.Strings(r.spec.threads)
	}
	for g := range a.goTargets {
		found := false
		for _, sp := range specs {
			if a.fnName(sp.fn) == g {
				found = true
			}
		}
		if !found {
			a.warn("goroutine body %s is not an operation", g)
		}
	}

	// --- segments and steps
	var ops []*opOut
	var unreached []string
	lockSet := map[string]bool{}
	for _, r := range res {
		if len(r.spec.threads) == 0 {
			unreached = append(unreached, r.spec.name)
			continue
		}
		o := &opOut{Name: r.spec.name, Func: a.fnName(r.spec.fn), Kind: r.spec.kind, Threads: r.spec.threads, Segs: []*segOut{}, Steps: []stepOut{}}
		rename := func(s string) string {
			if r.spec.role != "" && strings.HasPrefix(s, "LevelDBStore.") {
				return "LevelDBStore" + r.spec.role + "." + strings.TrimPrefix(s, "LevelDBStore.")
			}
			return s
		}
		segIdx := map[string]*segOut{}
		accIdx := map[string]*accOut{}
		for _, e := range r.ev {
			ls := e.Locks
			var lk [][2]string
			var kb strings.Builder
			dup := map[string]bool{}
			for _, h := range ls {
				id := rename(h.ID)
				if dup[id] {
					continue // re-entrant RLock of a lock this goroutine already holds
				}
				dup[id] = true
				lk = append(lk, [2]string{id, string(h.Mode)})
				kb.WriteString(id + ":" + string(h.Mode) + ",")
				lockSet[id] = true
			}
			sg := segIdx[kb.String()]
			if sg == nil {
				sg = &segOut{ID: len(o.Segs) + 1, Locks: lk}
				segIdx[kb.String()] = sg
				o.Segs = append(o.Segs, sg)
			}
			cls := rename(e.Class)
			ak := fmt.Sprintf("%d|%s|%c", sg.ID, cls, e.RW)
			ac := accIdx[ak]
			if ac == nil {
				ac = &accOut{Class: cls, RW: string(e.RW)}
				accIdx[ak] = ac
				sg.Acc = append(sg.Acc, ac)
			}
			if len(ac.Pos) < 12 && !contains(ac.Pos, e.Pos) {
				ac.Pos = append(ac.Pos, e.Pos)
			}
			if !contains(ac.Fns, e.Fn) {
				ac.Fns = append(ac.Fns, e.Fn)
			}
		}
		// steps: lockset diffs between consecutive segments
		var held [][2]string
		for _, sg := range o.Segs {
			// longest common prefix stays held
			cp := 0
			for cp < len(held) && cp < len(sg.Locks) && held[cp] == sg.Locks[cp] {
				cp++
			}
			for k := len(held) - 1; k >= cp; k-- {
				o.Steps = append(o.Steps, stepOut{K: "rel", L: held[k][0]})
			}
			held = held[:cp]
			for k := cp; k < len(sg.Locks); k++ {
				o.Steps = append(o.Steps, stepOut{K: "acq", L: sg.Locks[k][0], M: sg.Locks[k][1]})
				held = append(held, sg.Locks[k])
			}
			o.Steps = append(o.Steps, stepOut{K: "sec", Seg: sg.ID})
		}
		for k := len(held) - 1; k >= 0; k-- {
			o.Steps = append(o.Steps, stepOut{K: "rel", L: held[k][0]})
		}
		for f := range r.sum.reach {
			o.Reach = append(o.Reach, a.fnName(f))
		}
		sort.Strings(o.Reach)
		o.Index = len(ops) + 1
		ops = append(ops, o)
	}
	var locks []string
	for l := range lockSet {
		locks = append(locks, l)
	}
	sort.Strings(locks)

	var warns []string
	for w, n := range a.warnings {
		warns = append(warns, fmt.Sprintf("%s (x%d)", w, n))
	}
	sort.Strings(warns)

	if *outJSON != "" {
		out := map[string]interface{}{
			"ops": ops, "locks": locks, "unreached": unreached, "warnings": warns,
			"dynamic_calls": a.dynRes, "multi_threads": []string{"http", "raft"},
			"serial_pairs": [][2]string{{"FSM.Snapshot", "robustSnapshot.Persist"}},
			"loader":       "go/packages + go/ssa (golang.org/x/tools)",
		}
		b, _ := json.MarshalIndent(out, "", " ")
		if err := os.WriteFile(*outJSON, b, 0o644); err != nil {
			log.Fatal(err)
		}
	}
	if *outTLA != "" {
		if err := os.WriteFile(*outTLA, []byte(renderTLA(*module, ops, locks)), 0o644); err != nil {
			log.Fatal(err)
		}
	}
	nacc := 0
	for _, o := range ops {
		for _, s := range o.Segs {
			nacc += len(s.Acc)
		}
	}
	fmt.Printf("lockextract: %d operations (%d unreached dropped), %d locks, %d access classes x sections, %d contexts, %d warnings\n",
		len(ops), len(unreached), len(locks), nacc, len(a.memo), len(warns))
}

func contains(xs []string, x string) bool {
	for _, y := range xs {
		if y == x {
			return true
		}
	}
	return false
}

// selectLoop: the blocks of the steady-state `for { select { ... } }` loop of
// a function: the cyclic region around its Select instruction.
func selectLoop(f *ssa.Function) map[*ssa.BasicBlock]bool {
	var sel *ssa.BasicBlock
	for _, b := range f.Blocks {
		for _, in := range b.Instrs {
			if s, ok := in.(*ssa.Select); ok && s.Blocking {
				sel = b
			}
		}
	}
	if sel == nil {
		return nil
	}
	fwd := map[*ssa.BasicBlock]bool{}
	var walk func(b *ssa.BasicBlock, seen map[*ssa.BasicBlock]bool, next func(*ssa.BasicBlock) []*ssa.BasicBlock)
	walk = func(b *ssa.BasicBlock, seen map[*ssa.BasicBlock]bool, next func(*ssa.BasicBlock) []*ssa.BasicBlock) {
		for _, n := range next(b) {
			if !seen[n] {
				seen[n] = true
				walk(n, seen, next)
			}
		}
	}
	walk(sel, fwd, func(b *ssa.BasicBlock) []*ssa.BasicBlock { return b.Succs })
	bwd := map[*ssa.BasicBlock]bool{}
	walk(sel, bwd, func(b *ssa.BasicBlock) []*ssa.BasicBlock { return b.Preds })
	res := map[*ssa.BasicBlock]bool{}
	for b := range fwd {
		if bwd[b] {
			res[b] = true
		}
	}
	return res
}

func keys(m map[string]bool) []string {
	var r []string
	for k := range m {
		r = append(r, k)
	}
	sort.Strings(r)
	return r
}

func tlaSet(xs []string) string {
	var q []string
	for _, x := range xs {
		q = append(q, tlaStr(x))
	}
	return "{" + strings.Join(q, ", ") + "}"
}

// segSets: classes only read / classes written in a section.
func segSets(sg *segOut) (rs, ws []string) {
	wr := map[string]bool{}
	for _, ac := range sg.Acc {
		if ac.RW == "W" {
			wr[ac.Class] = true
		}
	}
	rd := map[string]bool{}
	for _, ac := range sg.Acc {
		if ac.RW == "R" && !wr[ac.Class] {
			rd[ac.Class] = true
		}
	}
	return keys(rd), keys(wr)
}

func tlaStr(s string) string { return "\"" + strings.ReplaceAll(s, "\"", "'") + "\"" }

func renderTLA(module string, ops []*opOut, locks []string) string {
	var sb strings.Builder
	fmt.Fprintf(&sb, "---- MODULE %s ----\n", module)
	sb.WriteString("\\* GENERATED by /verif/tools/lockextract from the current source tree. Do not edit.\n")
	sb.WriteString("\\* Root module for Locks.tla: the operations of the running system as step lists.\n")
	sb.WriteString("EXTENDS Integers, Sequences, FiniteSets, TLC\n\n")
	sb.WriteString("LockNamesDef == {")
	for k, l := range locks {
		if k > 0 {
			sb.WriteString(", ")
		}
		sb.WriteString(tlaStr(l))
	}
	sb.WriteString("}\n\n")
	sb.WriteString("OpsDef == <<\n")
	for k, o := range ops {
		if k > 0 {
			sb.WriteString(",\n")
		}
		fmt.Fprintf(&sb, "  \\* %d  %s\n", o.Index, o.Func)
		fmt.Fprintf(&sb, "  [name |-> %s, threads |-> {", tlaStr(o.Name))
		for j, t := range o.Threads {
			if j > 0 {
				sb.WriteString(", ")
			}
			sb.WriteString(tlaStr(t))
		}
		sb.WriteString("}, steps |-> <<")
		rall, wall := map[string]bool{}, map[string]bool{}
		segByID := map[int]*segOut{}
		for _, s := range o.Segs {
			segByID[s.ID] = s
		}
		for j, st := range o.Steps {
			if j > 0 {
				sb.WriteString(",")
			}
			sb.WriteString("\n     ")
			switch st.K {
			case "acq":
				fmt.Fprintf(&sb, "[k |-> \"acq\", l |-> %s, m |-> %s, seg |-> 0, rs |-> {}, ws |-> {}]", tlaStr(st.L), tlaStr(st.M))
			case "rel":
				fmt.Fprintf(&sb, "[k |-> \"rel\", l |-> %s, m |-> \"\", seg |-> 0, rs |-> {}, ws |-> {}]", tlaStr(st.L))
			case "sec":
				// a write subsumes the read of the same class
				rs, ws := segSets(segByID[st.Seg])
				for _, c := range rs {
					rall[c] = true
				}
				for _, c := range ws {
					wall[c] = true
				}
				fmt.Fprintf(&sb, "[k |-> \"sec\", l |-> \"\", m |-> \"\", seg |-> %d, rs |-> %s, ws |-> %s]", st.Seg, tlaSet(rs), tlaSet(ws))
			}
		}
		sb.WriteString(">>,\n   rall |-> " + tlaSet(keys(rall)) + ",\n   wall |-> " + tlaSet(keys(wall)))
		sb.WriteString("]")
	}
	sb.WriteString("\n>>\n\n")
	sb.WriteString("\\* concurrency relation (see Locks.tla)\n")
	sb.WriteString("MultiThreadsDef == {\"http\", \"raft\"}\n")
	sb.WriteString("SerialPairsDef == {{\"FSM.Snapshot\", \"robustSnapshot.Persist\"}}\n\n")
	sb.WriteString("\\* run parameters (rewritten by checks/c20.py for the individual TLC runs)\n")
	sb.WriteString("NSlotsDef == 2\nOnlyOpsDef == {}\nReportDef == TRUE\nPruneDef == FALSE\n\n")
	sb.WriteString("VARIABLES op, pc, rd, wr\n\n")
	sb.WriteString("\\* (substitution by INSTANCE, not by the cfg: TLC caches these definitions)\n")
	sb.WriteString("INSTANCE Locks WITH Ops <- OpsDef, LockNames <- LockNamesDef, MultiThreads <- MultiThreadsDef,\n")
	sb.WriteString("                    SerialPairs <- SerialPairsDef, NSlots <- NSlotsDef, OnlyOps <- OnlyOpsDef,\n")
	sb.WriteString("                    Report <- ReportDef, Prune <- PruneDef\n\n====\n")
	return sb.String()
}
