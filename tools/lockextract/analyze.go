package main

// Inter-procedural must-lockset / shared-access extraction on go/ssa.
//
// For one root function ("operation") the analyzer walks the SSA of the root
// and of every function of the repository reachable from it (callee inherits
// the caller's lockset; every distinct (function, lockset, argument
// provenance) context is analysed once).  Per function instance:
//
//   phase 1  forward data-flow over the CFG, state = ordered set of held
//            (lock, mode); meet = intersection (must-held); lock/unlock calls
//            on sync.Mutex / sync.RWMutex fields are the transfer functions;
//            deferred calls run at RunDefers (LIFO).
//   phase 2  one pass over the blocks in source order emitting an Access
//            event (class, R/W, lockset, position, function) for every load,
//            store, map lookup/update/delete/range, append/copy/len and for
//            addresses handed to opaque library code.
//
// Storage classes ("object classes"): `T.f` for field f of a named struct T of
// the analysed packages reached through a *T (all instances of T share the
// class), `pkg.v` for package-level variables, `C[]` for the storage a
// reference value (map, slice, pointer to a non-repository type) loaded from
// class C refers to.  Objects allocated inside the operation and not yet
// published ("fresh") are ignored, as are locks of fresh objects.

import (
	"fmt"
	"go/constant"
	"go/token"
	"go/types"
	"os"
	"sort"
	"strings"

	"golang.org/x/tools/go/ssa"
)

type HeldLock struct {
	ID   string
	Mode byte // 'R' or 'W'
}

type LockSet []HeldLock

func (l LockSet) key() string {
	var sb strings.Builder
	for _, h := range l {
		sb.WriteString(h.ID)
		sb.WriteByte(':')
		sb.WriteByte(h.Mode)
		sb.WriteByte(',')
	}
	return sb.String()
}

func (l LockSet) clone() LockSet { return append(LockSet(nil), l...) }

func (l LockSet) without(id string) LockSet {
	// release the most recent acquisition of id
	for k := len(l) - 1; k >= 0; k-- {
		if l[k].ID == id {
			r := append(LockSet(nil), l[:k]...)
			return append(r, l[k+1:]...)
		}
	}
	return l
}

func (l LockSet) has(id string) bool {
	for _, h := range l {
		if h.ID == id {
			return true
		}
	}
	return false
}

// meet: locks held on both paths (weaker mode wins), order of a.
func meet(a, b LockSet) LockSet {
	var r LockSet
	for _, h := range a {
		for _, g := range b {
			if g.ID == h.ID {
				m := h.Mode
				if g.Mode == 'R' {
					m = 'R'
				}
				r = append(r, HeldLock{h.ID, m})
				break
			}
		}
	}
	return r
}

type provKind int

const (
	pShared    provKind = iota // unknown / shared object, classes by type
	pFresh                     // allocated in this operation, unpublished
	pAddr                      // pointer INTO storage of class
	pVal                       // reference value whose referent storage is class
	pStructVal                 // by-value copy of a repository struct T (class = T name; "-f" suffixes: fields replaced by fresh values)
	pFreshColl                 // fresh map/slice whose elements are struct copies of class
)

type prov struct {
	kind  provKind
	class string
}

func (p prov) key() string { return fmt.Sprintf("%d%s", p.kind, p.class) }

type Access struct {
	Class string
	RW    byte
	Locks LockSet
	Pos   string // file:line (relative to the repository)
	Fn    string // enclosing function (types-style name, package path shortened)
}

type summary struct {
	events     []Access
	exit       LockSet
	ret        prov
	inProgress bool
	reach      map[*ssa.Function]bool
}

type Analyzer struct {
	prog      *ssa.Program
	fset      *token.FileSet
	repoDir   string
	repoPkgs  map[string]bool // import paths of analysed packages
	shortPkg  map[string]string
	memo      map[string]*summary
	allFuncs  []*ssa.Function // functions of analysed packages (for dynamic calls)
	warnings  map[string]int
	dynRes    map[string][]string
	tmpl      *tmplSet
	stopAt    func(caller, callee *ssa.Function) bool
	depth     int
	goTargets map[string]bool

	rootFilter   map[*ssa.BasicBlock]bool // restrict the root function to these blocks
	rootFilterFn *ssa.Function
	lastKey      string
	pkgOrder     []string
}

func (a *Analyzer) warn(format string, args ...interface{}) {
	a.warnings[fmt.Sprintf(format, args...)]++
}

func (a *Analyzer) isRepoFunc(f *ssa.Function) bool {
	if f == nil {
		return false
	}
	if f.Pkg != nil {
		return a.repoPkgs[f.Pkg.Pkg.Path()]
	}
	// closures / wrappers / instantiations
	if f.Parent() != nil {
		return a.isRepoFunc(f.Parent())
	}
	if o := f.Object(); o != nil && o.Pkg() != nil {
		return a.repoPkgs[o.Pkg().Path()]
	}
	return false
}

func (a *Analyzer) fnName(f *ssa.Function) string {
	s := f.String()
	if a.pkgOrder == nil {
		for full := range a.shortPkg {
			a.pkgOrder = append(a.pkgOrder, full)
		}
		sort.Slice(a.pkgOrder, func(i, j int) bool { return len(a.pkgOrder[i]) > len(a.pkgOrder[j]) })
	}
	for _, full := range a.pkgOrder {
		s = strings.ReplaceAll(s, full, a.shortPkg[full])
	}
	return s
}

func (a *Analyzer) pos(p token.Pos) string {
	if !p.IsValid() {
		return "?"
	}
	pp := a.fset.Position(p)
	f := strings.TrimPrefix(pp.Filename, a.repoDir+"/")
	return fmt.Sprintf("%s:%d", f, pp.Line)
}

// ---------------------------------------------------------------- type helpers

func deref(t types.Type) types.Type {
	if p, ok := t.Underlying().(*types.Pointer); ok {
		return p.Elem()
	}
	return t
}

// repoStruct returns the short class name of a named struct type declared in
// an analysed package ("IRCServer", "Session", "main.FSM" -> "FSM").
func (a *Analyzer) repoStruct(t types.Type) (string, *types.Struct) {
	n, ok := types.Unalias(t).(*types.Named)
	if !ok {
		return "", nil
	}
	st, ok := n.Underlying().(*types.Struct)
	if !ok {
		return "", nil
	}
	if n.Obj().Pkg() == nil || !a.repoPkgs[n.Obj().Pkg().Path()] {
		return "", nil
	}
	return n.Obj().Name(), st
}

func isSyncType(t types.Type) bool {
	t = deref(t)
	if n, ok := types.Unalias(t).(*types.Named); ok && n.Obj().Pkg() != nil {
		p := n.Obj().Pkg().Path()
		return p == "sync" || p == "sync/atomic"
	}
	return false
}

func isRefLike(t types.Type) bool {
	switch t.Underlying().(type) {
	case *types.Pointer, *types.Map, *types.Slice, *types.Chan, *types.Interface, *types.Signature:
		return true
	}
	return false
}

func capClass(c string) string {
	// at most three levels of indirection are distinguished
	if strings.HasSuffix(c, "[][][]") {
		return c
	}
	return c + "[]"
}

// ---------------------------------------------------------------- per-instance state

type inst struct {
	a             *Analyzer
	fn            *ssa.Function
	args          []prov
	pmemo         map[ssa.Value]prov
	pbusy         map[ssa.Value]bool
	events        []Access
	emit          bool
	reach         map[*ssa.Function]bool
	retVals       []ssa.Value
	defers        []deferred
	callSummaries map[*ssa.Call]*summary
}

func (in *inst) prov(v ssa.Value) prov {
	if p, ok := in.pmemo[v]; ok {
		return p
	}
	if in.pbusy[v] {
		return prov{}
	}
	in.pbusy[v] = true
	p := in.prov1(v)
	delete(in.pbusy, v)
	in.pmemo[v] = p
	return p
}

// resultProv: provenance of a value of type t read out of storage class c.
func (in *inst) loadedFrom(c string, t types.Type) prov {
	if c == "" {
		return prov{}
	}
	if name, _ := in.a.repoStruct(deref(t)); name != "" {
		if _, isPtr := t.Underlying().(*types.Pointer); isPtr {
			return prov{} // *T of the repository: classes by type
		}
		return prov{pStructVal, "=" + c} // embedded by value: a copy of storage c
	}
	if isRefLike(t) {
		return prov{pVal, capClass(c)}
	}
	if _, ok := t.Underlying().(*types.Struct); ok {
		return prov{pStructVal, "=" + c}
	}
	return prov{}
}

// structValField: provenance of field name (type ft) of a by-value struct
// copy.  class "T": copy of a repository struct T made through a *T;
// class "=c": copy of the storage class c.  Scalars are private to the copy,
// reference-typed fields still point at the original's referents.
func (in *inst) structValField(class, name string, ft types.Type) prov {
	eq := strings.HasPrefix(class, "=")
	if !eq && strings.Contains(class, "-") {
		parts := strings.Split(class, "-")
		class = parts[0]
		for _, o := range parts[1:] {
			if o == name {
				return prov{kind: pFresh}
			}
		}
	}
	if _, ok := ft.Underlying().(*types.Struct); ok {
		if eq {
			return prov{pStructVal, class}
		}
		return prov{pStructVal, "=" + class + "." + name}
	}
	if !isRefLike(ft) {
		return prov{}
	}
	if _, isPtr := ft.Underlying().(*types.Pointer); isPtr {
		if n2, _ := in.a.repoStruct(deref(ft)); n2 != "" {
			return prov{}
		}
	}
	if eq {
		return prov{pVal, capClass(class[1:])}
	}
	return prov{pVal, class + "." + name + "[]"}
}

func (in *inst) prov1(v ssa.Value) prov {
	a := in.a
	switch v := v.(type) {
	case *ssa.MakeMap:
		// a fresh map filled with by-value copies of shared structs
		for _, ref := range *v.Referrers() {
			if mu, ok := ref.(*ssa.MapUpdate); ok && mu.Map == v {
				if p := in.prov(mu.Value); p.kind == pStructVal {
					return prov{pFreshColl, p.class}
				}
			}
		}
		return prov{kind: pFresh}
	case *ssa.Alloc, *ssa.MakeSlice, *ssa.MakeChan, *ssa.MakeClosure:
		return prov{kind: pFresh}
	case *ssa.Parameter:
		for k, p := range in.fn.Params {
			if p == v && k < len(in.args) {
				return in.args[k]
			}
		}
		return prov{}
	case *ssa.FreeVar:
		// a local captured by reference: the closure may run on another
		// goroutine (e.g. GetMessagesStats.cancel); class = function.variable
		if pt, ok := v.Type().Underlying().(*types.Pointer); ok {
			if n, _ := a.repoStruct(pt.Elem()); n == "" && v.Parent() != nil && v.Parent().Parent() != nil {
				if _, isPtr := pt.Elem().Underlying().(*types.Pointer); !isPtr {
					return prov{pAddr, a.fnName(v.Parent().Parent()) + "." + v.Name()}
				}
			}
		}
		return prov{}
	case *ssa.Global:
		if v.Pkg != nil && a.repoPkgs[v.Pkg.Pkg.Path()] {
			return prov{pAddr, a.shortPkg[v.Pkg.Pkg.Path()] + "." + v.Name()}
		}
		return prov{}
	case *ssa.Const:
		return prov{}
	case *ssa.FieldAddr:
		base := in.prov(v.X)
		if base.kind == pFresh {
			return base
		}
		if base.kind == pAddr {
			return base
		}
		st := deref(v.X.Type())
		name, s := a.repoStruct(st)
		if name != "" {
			return prov{pAddr, name + "." + s.Field(v.Field).Name()}
		}
		if base.kind == pVal {
			return prov{pAddr, base.class}
		}
		return prov{}
	case *ssa.Field:
		base := in.prov(v.X)
		if base.kind == pFresh {
			return base
		}
		ft := v.Type()
		st, _ := v.X.Type().Underlying().(*types.Struct)
		cls := ""
		if base.kind == pStructVal {
			cls = base.class
		} else if name, _ := a.repoStruct(v.X.Type()); name != "" {
			cls = name
		}
		if cls != "" && st != nil {
			return in.structValField(cls, st.Field(v.Field).Name(), ft)
		}
		if base.kind == pVal && isRefLike(ft) {
			return base
		}
		return prov{}
	case *ssa.IndexAddr:
		base := in.prov(v.X)
		switch base.kind {
		case pFresh, pAddr:
			return base
		case pVal:
			return prov{pAddr, base.class}
		}
		return prov{}
	case *ssa.Index:
		return in.prov(v.X)
	case *ssa.UnOp:
		if v.Op != token.MUL {
			return prov{}
		}
		if al, ok := v.X.(*ssa.Alloc); ok {
			// local variable (e.g. a spilled result): join of the values
			// stored into it, flow-insensitively
			var vals []ssa.Value
			for _, ref := range *al.Referrers() {
				if st, ok := ref.(*ssa.Store); ok && st.Addr == al {
					vals = append(vals, st.Val)
				}
			}
			if len(vals) > 0 {
				p := in.joinProv(vals)
				if st, ok := deref(al.Type()).Underlying().(*types.Struct); ok && p.kind == pStructVal && !strings.HasPrefix(p.class, "=") {
					for f := 0; f < st.NumFields(); f++ {
						if sv := dominatingFieldStore(al, f, v); sv != nil && in.prov(sv).kind == pFresh {
							p.class += "-" + st.Field(f).Name()
						}
					}
				}
				return p
			}
		}
		if fa, ok := v.X.(*ssa.FieldAddr); ok {
			// field of a local that holds a by-value copy of a shared struct
			// (e.g. a spilled value receiver)
			if al, ok := fa.X.(*ssa.Alloc); ok {
				if sv := dominatingFieldStore(al, fa.Field, v); sv != nil {
					// the field of the local copy was overwritten before this load
					return in.prov(sv)
				}
				if sp, ok := in.allocStruct(al); ok {
					st, _ := deref(al.Type()).Underlying().(*types.Struct)
					if st != nil {
						return in.structValField(sp.class, st.Field(fa.Field).Name(), v.Type())
					}
				}
			}
		}
		base := in.prov(v.X)
		switch base.kind {
		case pFresh:
			return base
		case pAddr, pVal:
			return in.loadedFrom(base.class, v.Type())
		}
		if name, _ := a.repoStruct(v.Type()); name != "" {
			return prov{pStructVal, name}
		}
		return prov{}
	case *ssa.Lookup:
		base := in.prov(v.X)
		t := v.Type()
		if tup, ok := t.(*types.Tuple); ok {
			t = tup.At(0).Type()
		}
		switch base.kind {
		case pFresh:
			return base
		case pFreshColl:
			return prov{pStructVal, base.class}
		case pVal:
			return in.loadedFrom(base.class, t)
		}
		return prov{}
	case *ssa.Range:
		return in.prov(v.X)
	case *ssa.Next:
		rng, ok := v.Iter.(*ssa.Range)
		if !ok || v.IsString {
			return prov{}
		}
		base := in.prov(rng.X)
		if base.kind == pFresh {
			return base
		}
		if base.kind == pFreshColl {
			return prov{pStructVal, base.class}
		}
		if base.kind == pVal {
			if m, ok := rng.X.Type().Underlying().(*types.Map); ok {
				return in.loadedFrom(base.class, m.Elem())
			}
		}
		return prov{}
	case *ssa.Extract:
		if _, ok := v.Tuple.(*ssa.Next); ok && v.Index != 2 {
			return prov{}
		}
		p := in.prov(v.Tuple)
		if p.kind == pStructVal || p.kind == pVal || p.kind == pAddr {
			// only meaningful for the component of matching type
			if !(isRefLike(v.Type()) || func() bool { n, _ := a.repoStruct(v.Type()); return n != "" }()) {
				return prov{}
			}
		}
		return p
	case *ssa.Phi:
		return in.joinProv(v.Edges)
	case *ssa.ChangeType:
		return in.prov(v.X)
	case *ssa.Convert:
		return in.prov(v.X)
	case *ssa.ChangeInterface:
		return in.prov(v.X)
	case *ssa.MakeInterface:
		return in.prov(v.X)
	case *ssa.TypeAssert:
		return in.prov(v.X)
	case *ssa.Slice:
		base := in.prov(v.X)
		if base.kind == pAddr {
			return prov{pVal, base.class}
		}
		return base
	case *ssa.Call:
		if b, ok := v.Call.Value.(*ssa.Builtin); ok {
			if b.Name() == "append" && len(v.Call.Args) > 0 {
				p := in.prov(v.Call.Args[0])
				if p.kind == pVal {
					return p
				}
				return prov{kind: pFresh}
			}
			return prov{}
		}
		if callee := v.Call.StaticCallee(); callee != nil && a.isRepoFunc(callee) && callee.Blocks != nil {
			// provenance of the result: from the (memoised) summary computed
			// when the call instruction was processed
			if s := in.callSummaries[v]; s != nil {
				return s.ret
			}
		}
		return prov{}
	}
	return prov{}
}

// dominatingFieldStore: the value most recently stored into field f of the
// local al on every path to the load ld (same block earlier, or a dominating
// block), or nil.
func dominatingFieldStore(al *ssa.Alloc, f int, ld *ssa.UnOp) ssa.Value {
	idx := func(b *ssa.BasicBlock, x ssa.Instruction) int {
		for k, in := range b.Instrs {
			if in == x {
				return k
			}
		}
		return -1
	}
	var best *ssa.Store
	for _, ref := range *al.Referrers() {
		fa, ok := ref.(*ssa.FieldAddr)
		if !ok || fa.Field != f {
			continue
		}
		for _, r2 := range *fa.Referrers() {
			st, ok := r2.(*ssa.Store)
			if !ok || st.Addr != fa {
				continue
			}
			sb, lb := st.Block(), ld.Block()
			if sb == lb {
				if idx(sb, st) < idx(lb, ld) && (best == nil || best.Block() != lb || idx(sb, best) < idx(sb, st)) {
					best = st
				}
			} else if sb.Dominates(lb) && best == nil {
				best = st
			}
		}
	}
	if best == nil {
		return nil
	}
	return best.Val
}

// allocStruct: the local holds a whole by-value copy of a shared struct.
func (in *inst) allocStruct(al *ssa.Alloc) (prov, bool) {
	var vals []ssa.Value
	for _, ref := range *al.Referrers() {
		if st, ok := ref.(*ssa.Store); ok && st.Addr == al {
			vals = append(vals, st.Val)
		}
	}
	if len(vals) == 0 {
		return prov{}, false
	}
	p := in.joinProv(vals)
	if p.kind == pStructVal {
		return p, true
	}
	if p.kind == pShared {
		if name, _ := in.a.repoStruct(deref(al.Type())); name != "" {
			return prov{pStructVal, name}, true
		}
	}
	return prov{}, false
}

// joinProv: fresh only if every (non-nil) source is fresh; otherwise the first
// informative provenance.
func (in *inst) joinProv(vals []ssa.Value) prov {
	var res prov
	allFresh := true
	n := 0
	for _, e := range vals {
		if c, ok := e.(*ssa.Const); ok && c.IsNil() {
			continue
		}
		n++
		p := in.prov(e)
		if p.kind != pFresh {
			allFresh = false
			if res.kind == pShared || res.kind == pFresh {
				res = p
			}
		}
	}
	if allFresh && n > 0 {
		return prov{kind: pFresh}
	}
	if res.kind == pFresh {
		return prov{}
	}
	return res
}

// ---------------------------------------------------------------- accesses

func (in *inst) record(class string, rw byte, locks LockSet, pos token.Pos) {
	if !in.emit || class == "" {
		return
	}
	in.events = append(in.events, Access{Class: class, RW: rw, Locks: locks.clone(), Pos: in.a.pos(pos), Fn: in.a.fnName(in.fn)})
}

// accessAt: a memory access through pointer value addr (load or store of type t).
func (in *inst) accessAt(addr ssa.Value, t types.Type, rw byte, locks LockSet, pos token.Pos) {
	if isSyncType(t) {
		return
	}
	p := in.prov(addr)
	switch p.kind {
	case pFresh:
		return
	case pAddr, pVal:
		in.record(p.class, rw, locks, pos)
		return
	}
	// plain pointer: whole-struct access to a repository struct?
	if name, st := in.a.repoStruct(deref(addr.Type())); name != "" {
		for k := 0; k < st.NumFields(); k++ {
			f := st.Field(k)
			if isSyncType(f.Type()) {
				continue
			}
			in.record(name+"."+f.Name(), rw, locks, pos)
		}
	}
}

// refAccess: access to the referent of a reference value (map ops, append...).
func (in *inst) refAccess(v ssa.Value, rw byte, locks LockSet, pos token.Pos) {
	p := in.prov(v)
	if p.kind == pVal {
		in.record(p.class, rw, locks, pos)
	}
}

// ---------------------------------------------------------------- locks

// lockID resolves the receiver of a sync lock method to a lock class.
func (in *inst) lockID(recv ssa.Value) (string, bool) {
	v := recv
	for {
		switch x := v.(type) {
		case *ssa.UnOp:
			if x.Op == token.MUL {
				v = x.X
				continue
			}
		case *ssa.ChangeType:
			v = x.X
			continue
		case *ssa.Phi:
			if len(x.Edges) > 0 {
				v = x.Edges[0]
				continue
			}
		}
		break
	}
	switch x := v.(type) {
	case *ssa.FieldAddr:
		if in.prov(x.X).kind == pFresh {
			return "", false
		}
		st := deref(x.X.Type())
		if name, s := in.a.repoStruct(st); name != "" {
			return name + "." + s.Field(x.Field).Name(), true
		}
		// embedded in a non-repository struct: use the type string
		if s, ok := st.Underlying().(*types.Struct); ok {
			return "?" + st.String() + "." + s.Field(x.Field).Name(), true
		}
	case *ssa.Global:
		if x.Pkg != nil {
			return in.a.shortPkg[x.Pkg.Pkg.Path()] + "." + x.Name(), true
		}
	case *ssa.Alloc:
		return "", false
	}
	in.a.warn("unresolved lock receiver in %s: %s", in.a.fnName(in.fn), recv.String())
	return "", false
}

func syncLockOp(callee *ssa.Function) (op string, ok bool) {
	if callee == nil || callee.Signature.Recv() == nil {
		return "", false
	}
	rt := deref(callee.Signature.Recv().Type())
	n, isNamed := types.Unalias(rt).(*types.Named)
	if !isNamed || n.Obj().Pkg() == nil || n.Obj().Pkg().Path() != "sync" {
		return "", false
	}
	switch n.Obj().Name() {
	case "Mutex", "RWMutex":
		switch callee.Name() {
		case "Lock", "RLock", "Unlock", "RUnlock":
			return callee.Name(), true
		}
		return "other", true
	}
	return "other", true // Cond, Once, WaitGroup, ...: no lockset effect
}

// ---------------------------------------------------------------- function instance

type deferred struct {
	call *ssa.CallCommon
	pos  token.Pos
	site ssa.Instruction
}

func (a *Analyzer) analyze(fn *ssa.Function, entry LockSet, args []prov) *summary {
	var ks strings.Builder
	ks.WriteString(fn.String())
	if fn.Parent() != nil {
		ks.WriteString(fmt.Sprintf("@%p", fn))
	}
	ks.WriteString("|")
	ks.WriteString(entry.key())
	ks.WriteString("|")
	for _, p := range args {
		ks.WriteString(p.key())
		ks.WriteString(";")
	}
	if a.rootFilterFn == fn {
		ks.WriteString("|filtered")
	}
	key := ks.String()
	a.lastKey = key
	if s, ok := a.memo[key]; ok {
		return s
	}
	s := &summary{exit: entry, inProgress: true, reach: map[*ssa.Function]bool{fn: true}}
	a.memo[key] = s
	if fn.Blocks == nil {
		s.inProgress = false
		return s
	}
	a.depth++
	defer func() { a.depth-- }()

	in := &inst{a: a, fn: fn, args: args, pmemo: map[ssa.Value]prov{}, pbusy: map[ssa.Value]bool{},
		reach: s.reach, callSummaries: map[*ssa.Call]*summary{}}

	nb := len(fn.Blocks)
	inState := make([]LockSet, nb)
	seen := make([]bool, nb)
	inState[0] = entry.clone()
	seen[0] = true
	// phase 1: fixpoint
	work := []int{0}
	inWork := map[int]bool{0: true}
	guard := 0
	for len(work) > 0 {
		guard++
		if guard > 20000 {
			a.warn("fixpoint guard hit in %s", a.fnName(fn))
			break
		}
		sort.Ints(work)
		b := work[0]
		work = work[1:]
		delete(inWork, b)
		out, _ := in.transfer(fn.Blocks[b], inState[b])
		for _, succ := range fn.Blocks[b].Succs {
			k := succ.Index
			var n LockSet
			if !seen[k] {
				n = out.clone()
			} else {
				n = meet(inState[k], out)
			}
			if !seen[k] || n.key() != inState[k].key() {
				inState[k] = n
				seen[k] = true
				if !inWork[k] {
					work = append(work, k)
					inWork[k] = true
				}
			}
		}
	}
	// phase 2: emission in block order
	in.emit = true
	in.pmemo = map[ssa.Value]prov{}
	var exit LockSet
	haveExit := false
	for b := 0; b < nb; b++ {
		if !seen[b] {
			continue
		}
		if fn.Recover != nil && fn.Blocks[b] == fn.Recover {
			continue
		}
		if a.rootFilterFn == fn && a.depth == 1 && !a.rootFilter[fn.Blocks[b]] {
			continue
		}
		out, returned := in.transfer(fn.Blocks[b], inState[b])
		if returned {
			if !haveExit {
				exit = out.clone()
				haveExit = true
			} else {
				exit = meet(exit, out)
			}
		}
	}
	if haveExit {
		s.exit = exit
	}
	s.events = in.events
	// result provenance: fresh only if every returned (non-nil) value is fresh
	var ret prov
	if len(in.retVals) > 0 {
		ret = in.joinProv(in.retVals)
	}
	s.ret = ret
	s.inProgress = false
	return s
}

// transfer processes one basic block; returns the lockset at its end and
// whether the block ends in a Return.
func (in *inst) transfer(b *ssa.BasicBlock, locks LockSet) (LockSet, bool) {
	locks = locks.clone()
	returned := false
	for _, instr := range b.Instrs {
		switch x := instr.(type) {
		case *ssa.UnOp:
			if x.Op == token.MUL {
				in.accessAt(x.X, x.Type(), 'R', locks, x.Pos())
			}
		case *ssa.Store:
			in.accessAt(x.Addr, x.Val.Type(), 'W', locks, x.Pos())
		case *ssa.Lookup:
			if _, ok := x.X.Type().Underlying().(*types.Map); ok {
				in.refAccess(x.X, 'R', locks, x.Pos())
			}
		case *ssa.MapUpdate:
			in.refAccess(x.Map, 'W', locks, x.Pos())
		case *ssa.Range:
			if _, ok := x.X.Type().Underlying().(*types.Map); ok {
				in.refAccess(x.X, 'R', locks, x.Pos())
			}
		case *ssa.Go:
			// a new goroutine starts with an empty lockset; its body is a
			// separate operation (listed as an entry point when relevant)
			if c := x.Call.StaticCallee(); c != nil && in.a.isRepoFunc(c) {
				in.a.goTargets[in.a.fnName(c)] = true
			}
		case *ssa.Defer:
			in.defers = append(in.defers, deferred{call: &x.Call, pos: x.Pos(), site: x})
		case *ssa.RunDefers:
			// LIFO; a defer statement is taken into account if it was
			// encountered in a block processed so far (program order)
			seenSite := map[ssa.Instruction]bool{}
			for k := len(in.defers) - 1; k >= 0; k-- {
				d := in.defers[k]
				if seenSite[d.site] {
					continue
				}
				seenSite[d.site] = true
				locks = in.call(d.call, nil, locks, d.pos)
			}
		case *ssa.Call:
			locks = in.call(&x.Call, x, locks, x.Pos())
		case *ssa.Return:
			returned = true
			if in.emit {
				for _, r := range x.Results {
					_, isStruct := r.Type().Underlying().(*types.Struct)
					if isRefLike(r.Type()) || isStruct {
						in.retVals = append(in.retVals, r)
						break
					}
				}
			}
		}
	}
	return locks, returned
}

func (in *inst) call(c *ssa.CallCommon, site *ssa.Call, locks LockSet, pos token.Pos) LockSet {
	a := in.a
	// builtins
	if b, ok := c.Value.(*ssa.Builtin); ok {
		switch b.Name() {
		case "delete":
			in.refAccess(c.Args[0], 'W', locks, pos)
		case "len", "cap":
			if _, isMap := c.Args[0].Type().Underlying().(*types.Map); isMap {
				in.refAccess(c.Args[0], 'R', locks, pos)
			}
		case "append":
			in.refAccess(c.Args[0], 'W', locks, pos)
			if len(c.Args) > 1 {
				in.refAccess(c.Args[1], 'R', locks, pos)
			}
		case "copy":
			in.refAccess(c.Args[0], 'W', locks, pos)
			in.refAccess(c.Args[1], 'R', locks, pos)
		}
		return locks
	}
	callee := c.StaticCallee()
	if callee != nil {
		if op, ok := syncLockOp(callee); ok {
			if op == "other" || len(c.Args) == 0 {
				return locks
			}
			id, ok := in.lockID(c.Args[0])
			if !ok {
				return locks
			}
			switch op {
			case "Lock":
				return append(locks, HeldLock{id, 'W'})
			case "RLock":
				return append(locks, HeldLock{id, 'R'})
			case "Unlock", "RUnlock":
				if !locks.has(id) {
					return locks
				}
				return locks.without(id)
			}
			return locks
		}
		// closure created in place: bind free variables by analysing the
		// closure body with shared provenance (free variables are classed by
		// type only)
		if a.isRepoFunc(callee) && callee.Blocks != nil {
			if a.stopAt != nil && a.stopAt(in.fn, callee) {
				return locks
			}
			return in.inline(callee, c.Args, site, locks)
		}
		// html/template execution: reflective reads of the data argument
		if a.tmpl != nil && isTemplateExec(callee) {
			in.templateExec(c, locks, pos)
			return locks
		}
		in.opaque(c, callee, locks, pos)
		return locks
	}
	// dynamic call: closure value, func-typed field/variable, interface method
	if mc, ok := c.Value.(*ssa.MakeClosure); ok && !c.IsInvoke() {
		if f, ok := mc.Fn.(*ssa.Function); ok && a.isRepoFunc(f) {
			return in.inline(f, c.Args, site, locks)
		}
	}
	targets := a.resolveDynamic(c)
	if len(targets) == 0 {
		in.opaque(c, nil, locks, pos)
		return locks
	}
	out := LockSet(nil)
	first := true
	for _, t := range targets {
		args := c.Args
		var l LockSet
		if c.IsInvoke() {
			args = append([]ssa.Value{c.Value}, c.Args...)
			l = in.inline(t.fn, args, nil, locks)
		} else if t.bound {
			l = in.inlineProv(t.fn, append([]prov{{}}, in.provs(c.Args)...), nil, locks)
		} else {
			l = in.inline(t.fn, args, nil, locks)
		}
		if first {
			out = l
			first = false
		} else {
			out = meet(out, l)
		}
	}
	return out
}

func (in *inst) provs(args []ssa.Value) []prov {
	ps := make([]prov, len(args))
	for k, v := range args {
		ps[k] = in.prov(v)
	}
	return ps
}

func (in *inst) inline(callee *ssa.Function, args []ssa.Value, site *ssa.Call, locks LockSet) LockSet {
	return in.inlineProv(callee, in.provs(args), site, locks)
}

func (in *inst) inlineProv(callee *ssa.Function, ps []prov, site *ssa.Call, locks LockSet) LockSet {
	s := in.a.analyze(callee, locks, ps)
	if os.Getenv("LOCKEXTRACT_DEBUG") != "" && in.emit {
		fmt.Fprintf(os.Stderr, "CALL %s -> %s args=%v locks=%s events=%d exit=%s ret=%v inprog=%v\n", in.a.fnName(in.fn), in.a.fnName(callee), ps, locks.key(), len(s.events), s.exit.key(), s.ret, s.inProgress)
	}
	if site != nil {
		in.callSummaries[site] = s
	}
	if s.inProgress {
		return locks // recursion: assume lock-balanced
	}
	if in.emit {
		for f := range s.reach {
			in.reach[f] = true
		}
		in.events = append(in.events, s.events...)
	}
	return s.exit.clone()
}

// opaque: call into code outside the analysed packages.  A pointer into
// shared storage passed as the receiver of a method counts as a write of that
// storage, any other pointer/reference argument as a read.
func (in *inst) opaque(c *ssa.CallCommon, callee *ssa.Function, locks LockSet, pos token.Pos) {
	args := c.Args
	recvIdx := -1
	if callee != nil && callee.Signature.Recv() != nil {
		recvIdx = 0
	}
	if c.IsInvoke() {
		args = append([]ssa.Value{c.Value}, c.Args...)
		recvIdx = 0
	}
	if callee != nil && callee.Pkg != nil {
		switch callee.Pkg.Pkg.Path() {
		case "log", "github.com/stapelberg/glog", "github.com/robustirc/robustirc/internal/verifhook":
			return
		}
	}
	for k, arg := range args {
		p := in.prov(arg)
		// a by-value copy of a shared struct (or a pointer to a local holding
		// one) handed to library code -- encoders, formatters: its reference
		// fields still point at the original's maps and slices, which the
		// callee may read
		x := arg
		for {
			if mi, ok := x.(*ssa.MakeInterface); ok {
				x = mi.X
				continue
			}
			if ct, ok := x.(*ssa.ChangeType); ok {
				x = ct.X
				continue
			}
			break
		}
		if al, ok := x.(*ssa.Alloc); ok {
			if sp, ok := in.allocStruct(al); ok {
				in.structRefsRead(sp.class, deref(al.Type()), locks, pos)
			}
		} else if _, isStruct := x.Type().Underlying().(*types.Struct); isStruct {
			if sp := in.prov(x); sp.kind == pStructVal {
				in.structRefsRead(sp.class, x.Type(), locks, pos)
			}
		}
		switch p.kind {
		case pAddr:
			if isSyncType(arg.Type()) {
				continue
			}
			rw := byte('R')
			if k == recvIdx {
				rw = 'W'
			}
			in.record(p.class, rw, locks, pos)
		case pVal:
			switch arg.Type().Underlying().(type) {
			case *types.Map, *types.Slice:
				in.record(p.class, 'R', locks, pos)
			}
		}
	}
}

// structRefsRead: library code reads what the reference fields of a struct
// copy (class as in structValField) refer to.
func (in *inst) structRefsRead(class string, t types.Type, locks LockSet, pos token.Pos) {
	if strings.HasPrefix(class, "=") {
		in.record(capClass(class[1:]), 'R', locks, pos)
		return
	}
	st, ok := t.Underlying().(*types.Struct)
	if !ok {
		return
	}
	for f := 0; f < st.NumFields(); f++ {
		ft := st.Field(f).Type()
		switch ft.Underlying().(type) {
		case *types.Map, *types.Slice:
			if p := in.structValField(class, st.Field(f).Name(), ft); p.kind == pVal {
				in.record(p.class, 'R', locks, pos)
			}
		}
	}
}

// ---------------------------------------------------------------- dynamic calls

type dynTarget struct {
	fn    *ssa.Function
	bound bool // method value: receiver unknown
}

func sigParams(sig *types.Signature, withRecv bool) []types.Type {
	var ps []types.Type
	if withRecv && sig.Recv() != nil {
		ps = append(ps, sig.Recv().Type())
	}
	for k := 0; k < sig.Params().Len(); k++ {
		ps = append(ps, sig.Params().At(k).Type())
	}
	return ps
}

func sameTypes(x, y []types.Type) bool {
	if len(x) != len(y) {
		return false
	}
	for k := range x {
		if !types.Identical(x[k], y[k]) {
			return false
		}
	}
	return true
}

func sameResults(x, y *types.Signature) bool {
	if x.Results().Len() != y.Results().Len() {
		return false
	}
	for k := 0; k < x.Results().Len(); k++ {
		if !types.Identical(x.Results().At(k).Type(), y.Results().At(k).Type()) {
			return false
		}
	}
	return true
}

func (a *Analyzer) resolveDynamic(c *ssa.CallCommon) []dynTarget {
	var res []dynTarget
	if c.IsInvoke() {
		// interface method: concrete repository types implementing it
		for _, f := range a.allFuncs {
			if f.Signature.Recv() == nil || f.Name() != c.Method.Name() || f.Synthetic != "" {
				continue
			}
			if types.Implements(f.Signature.Recv().Type(), c.Value.Type().Underlying().(*types.Interface)) {
				res = append(res, dynTarget{fn: f})
			}
		}
	} else {
		sig, ok := c.Value.Type().Underlying().(*types.Signature)
		if !ok {
			return nil
		}
		want := sigParams(sig, false)
		if len(want) == 0 && sig.Results().Len() == 0 {
			return nil // func(): too unspecific (cancel functions, callbacks)
		}
		for _, f := range a.allFuncs {
			if f.Synthetic != "" {
				continue
			}
			if !sameResults(sig, f.Signature) || sig.Variadic() != f.Signature.Variadic() {
				continue
			}
			if sameTypes(want, sigParams(f.Signature, true)) {
				res = append(res, dynTarget{fn: f})
			} else if f.Signature.Recv() != nil && sameTypes(want, sigParams(f.Signature, false)) {
				res = append(res, dynTarget{fn: f, bound: true})
			}
		}
	}
	k := c.String()
	if _, ok := a.dynRes[k]; !ok {
		var names []string
		for _, t := range res {
			names = append(names, a.fnName(t.fn))
		}
		sort.Strings(names)
		if len(names) > 6 {
			names = append(names[:6], fmt.Sprintf("...(%d)", len(res)))
		}
		a.dynRes[k] = names
	}
	return res
}

func constString(v ssa.Value) (string, bool) {
	if c, ok := v.(*ssa.Const); ok && c.Value != nil && c.Value.Kind() == constant.String {
		return constant.StringVal(c.Value), true
	}
	return "", false
}
