#!/usr/bin/env python3
"""Evaluate one seeded change: tools/evalseed.py <PID> <k> [--checks C03,C14] [--tier quick] [--seeds 1,2]

 1. fresh scratch worktree of /repo HEAD (outside /repo and /verif)
 2. demo test passes on the clean tree, fails with patch.diff applied, baseline tests still pass with it
 3. run the registered check(s) with VERIF_REPO=<worktree>; record exit code and VIOLATION lines
 4. copy patch.diff, demo, notes into /verif/seeded/<PID>-<k>/ with meta.json; remove the worktree
"""
import json
import os
import re
import shutil
import subprocess
import sys
import time

VERIF = os.path.dirname(os.path.dirname(os.path.abspath(__file__)))
ENV = dict(os.environ, GOFLAGS="-mod=mod", GOPROXY="off", GOSUMDB="off", GOTOOLCHAIN="local")


def sh(cmd, cwd=None, env=None, timeout=3600):
    p = subprocess.run(cmd, cwd=cwd, env=env or ENV, stdout=subprocess.PIPE, stderr=subprocess.STDOUT, text=True,
                       shell=isinstance(cmd, str), timeout=timeout)
    return p.returncode, p.stdout


def main():
    pid, k = sys.argv[1], sys.argv[2]
    checks = [pid]
    tier = "quick"
    seeds = ["1"]
    src = "/tmp/seedwork/out-%s/%s" % (pid, k)
    for i, a in enumerate(sys.argv):
        if a == "--checks":
            checks = sys.argv[i + 1].split(",")
        if a == "--tier":
            tier = sys.argv[i + 1]
        if a == "--seeds":
            seeds = sys.argv[i + 1].split(",")
        if a == "--src":
            src = sys.argv[i + 1]
    rnd = ""
    if "--round" in sys.argv:
        rnd = sys.argv[sys.argv.index("--round") + 1]
        src = "/tmp/seedwork%s/out-%s/%s" % (rnd, pid, k)
    race = ["-race"] if "--race" in sys.argv or pid == "C20" else []
    wt = "/tmp/seedeval-%s-%s-%d" % (pid, k, os.getpid())
    logname = "%s-%s" % (pid, k)
    rc, out = sh(["git", "-C", "/repo", "worktree", "add", "--detach", wt, "HEAD", "-q"])
    if rc != 0:
        print("cannot create worktree", out)
        sys.exit(2)
    meta = {"property": pid, "seed_no": int(k), "repo_head": sh(["git", "-C", "/repo", "rev-parse", "--short", "HEAD"])[1].strip(),
            "ran": []}
    try:
        demo = os.path.join(src, "demo_test.go")
        first = open(demo).readline()
        m = re.search(r"copy to:\s*(\S+)", first)
        pkgdir = (m.group(1) if m else "internal/ircserver/").strip("/")
        if pkgdir in (".", ""):
            pkgdir = ""
        dst = os.path.join(wt, pkgdir, "zz_seed_demo_test.go")
        names = re.findall(r"^func (Test\w+)\(", open(demo).read(), re.M)
        runre = "^(%s)$" % "|".join(names)
        pkg = "./" + pkgdir if pkgdir else "."
        shutil.copy(demo, dst)
        rc_clean, out_clean = sh(["go", "test", "-vet=off", "-count=1"] + race + ["-run", runre, pkg], cwd=wt)
        os.unlink(dst)
        rc_ap, out_ap = sh(["git", "apply", os.path.join(src, "patch.diff")], cwd=wt)
        if rc_ap != 0:
            print("patch does not apply:", out_ap)
            meta["status"] = "patch does not apply to current HEAD"
            print(json.dumps(meta))
            return
        rc_build, out_build = sh("go build ./... ", cwd=wt)
        shutil.copy(demo, dst)
        rc_bug, out_bug = sh(["go", "test", "-vet=off", "-count=1"] + race + ["-run", runre, pkg], cwd=wt)
        os.unlink(dst)
        rc_suite, out_suite = sh("go test -vet=off -count=1 $(go list ./... | grep -v mod_test) 2>&1 | grep -c '^FAIL\\|^--- FAIL' ", cwd=wt)
        meta["demo"] = {"tests": names, "package": pkg, "clean_tree": "pass" if rc_clean == 0 else "FAIL",
                        "with_change": "fail" if rc_bug != 0 else "PASS(!)", "builds": rc_build == 0,
                        "existing_suite_failures_with_change": out_suite.strip()}
        ok_seed = rc_clean == 0 and rc_bug != 0 and rc_build == 0 and out_suite.strip() == "0"
        meta["confirmed"] = ok_seed
        print("seed %s-%s: demo clean=%s with-change=%s suite-failures=%s" % (pid, k, meta["demo"]["clean_tree"],
                                                                            meta["demo"]["with_change"], out_suite.strip()))
        detected = False
        for c in checks:
            for sd in seeds:
                t0 = time.time()
                e = dict(ENV, VERIF_REPO=wt, VERIF_SEED=sd)
                rc, out = sh([os.path.join(VERIF, "check"), c, "--tier", tier], cwd=VERIF, env=e)
                viol = [l for l in out.splitlines() if l.startswith("VIOLATION") or l.strip().startswith("what:")]
                meta["ran"].append({"cmd": "VERIF_REPO=<worktree with patch> VERIF_SEED=%s ./check %s --tier %s" % (sd, c, tier),
                                    "exit": rc, "wall_s": round(time.time() - t0, 1), "violation_lines": viol[:6],
                                    "tail": out.splitlines()[-3:]})
                print("  check %s seed %s tier %s: exit %d %s" % (c, sd, tier, rc, (viol[1][:160] if len(viol) > 1 else "")))
                if rc == 1:
                    detected = True
        meta["detected"] = detected
        out_dir = os.path.join(VERIF, "seeded", "%s-%s%s" % (pid, ("r%s-" % rnd) if rnd else "", k))
        os.makedirs(out_dir, exist_ok=True)
        for f in ("patch.diff", "demo_test.go", "notes.md"):
            if os.path.exists(os.path.join(src, f)):
                shutil.copy(os.path.join(src, f), out_dir)
        notes = os.path.join(src, "notes.md")
        meta["needs"] = ""
        if os.path.exists(notes):
            meta["needs"] = "see notes.md"
        with open(os.path.join(out_dir, "meta.json"), "w") as fh:
            json.dump(meta, fh, indent=1)
        print("  => detected=%s confirmed=%s" % (detected, ok_seed))
    finally:
        sh(["git", "-C", "/repo", "worktree", "remove", "--force", wt])
        shutil.rmtree(wt, ignore_errors=True)


if __name__ == "__main__":
    main()
