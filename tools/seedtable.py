#!/usr/bin/env python3
"""Prints the markdown table of seeded changes (from seeded/*/meta.json) for DESIGN.md §11.6."""
import json
import os
import re

HERE = os.path.dirname(os.path.dirname(os.path.abspath(__file__)))
rows = []
for d in sorted(os.listdir(os.path.join(HERE, "seeded"))):
    mp = os.path.join(HERE, "seeded", d, "meta.json")
    if not os.path.exists(mp):
        continue
    m = json.load(open(mp))
    notes = ""
    np_ = os.path.join(HERE, "seeded", d, "notes.md")
    if os.path.exists(np_):
        txt = open(np_, errors="replace").read()
        first = [l.strip() for l in txt.splitlines() if l.strip() and not l.startswith("#")]
        notes = (first[0] if first else "")[:140]
    what = m.get("summary") or notes
    caught = []
    for r in m.get("ran", []):
        c = re.search(r"check (C\d+)", r["cmd"]).group(1).replace("C17L", "C17")
        if r["exit"] == 1:
            sig = ""
            for l in r.get("violation_lines", []):
                mm = re.search(r"\[([^\]]+)\]\s*$", l)
                if mm:
                    sig = mm.group(1)
                    break
            caught.append("%s (%s)" % (c, sig[:60]))
        elif r["exit"] == 2:
            caught.append("%s: inconclusive" % c)
    rows.append("| %s | %s | %s | %s | %s |" % (d, m["property"], what.replace("|", "/"),
                                               "yes" if m.get("confirmed") else "NO",
                                               "; ".join(caught) if caught else "**missed**"))
print("| seed | property | change | demo confirmed | caught by |")
print("|---|---|---|---|---|")
print("\n".join(rows))
