#!/usr/bin/env python3
"""Regenerates /verif/MANIFEST.json from the table below (single source of truth for the lead)."""
import json
import os

HERE = os.path.dirname(os.path.dirname(os.path.abspath(__file__)))
props = [json.loads(l) for l in open(os.path.join(HERE, "properties.jsonl"))]

IRC_NOTE = ("Trusted: TLC, the Go toolchain and -overlay, gopkg.in/sorcix/irc.v2 (entries reach the model in parsed form), "
            "the projection harness/ircproj (cross-checked by a reflection-based canonical form). Exhaustive only within the "
            "IRCMC bounds (alphabet of ~180 entries per state, depth 2 quick / 2 over four prologues thorough); beyond that "
            "simulation and seeded state-aware random histories, every step of which is validated by TLC.")
IRC_TECH = "TLA+ step function IRC.tla: TLC exhaustive (IRCMC) + TLC-generated programs replayed on the real FSM + TLC trace validation (IRCTrace) of every recorded real step"


def irc(pid, text, ref):
    return {
        "property_id": pid,
        "quick_cmd": "./check %s --tier quick" % pid,
        "thorough_cmd": "./check %s --tier thorough" % pid,
        "evidence_file": "/verif/evidence/%s.json" % pid,
        "replay_cmd_template": "./check %s --replay {path}" % pid,
        "engine": "irc",
        "level_claimed": {"category": "model_checking", "text": text, "design_ref": ref},
        "level_note": IRC_NOTE,
        "technique": IRC_TECH,
    }


CHECKS = {
    "C14": irc("C14", "State invariants NickUnique, NamesValid, MembershipSymmetric, NoEmptyChannel, MembersLive and the limit "
               "action properties are TLC invariants of the bounded model IRCMC (all entry sequences of the alphabet within the "
               "depth bound) and are evaluated by TLC on the projected state of the REAL server after every entry of every "
               "recorded history (TLC-generated programs, regression scenarios, seeded random histories incl. services "
               "commands, case-only nick changes, snapshot round-trips).", "DESIGN.md §6 C14"),
    "C12": irc("C12", "RecipientsEntitled and PrefixIsSender (IRCProps.tla) are evaluated by TLC on every transition of the bounded "
               "model and on every reply of every recorded real step against the pre/post state the real server reported; "
               "recipient sets are the real InterestingFor maps, prefixes the real prefix bytes. HTTP level (checks/irc_http.py): "
               "the same state-aware histories run through the real HTTP API of a complete single-node network (real raft, FSM, "
               "output stream); TLC validates every applied entry with the same predicates and StreamIsEntitledReplies: what each "
               "session's real long polls delivered (cancelled and resumed with lastseen) is exactly the messages addressed to it.",
               "DESIGN.md §6 C12, §11.2"),
    "C13": irc("C13", "EffectNeedsPrivilege is stated on the state delta (gained/lost membership, mode/key/ban/op changes, topic, "
               "invitations, ended sessions, ban table, oper/server flags) and evaluated by TLC on every model transition and on "
               "every recorded real step; captcha tokens are minted by the harness in the classes valid/expired/replayed/bad mac.",
               "DESIGN.md §6 C13"),
    "C06": irc("C06", "Every entry of the bounded model and of the recorded histories (alphabet lines, TLC programs, and grammar/"
               "mutation fuzz outside the alphabet from reachable states) is executed on the real FSM.applyRobustMessage inside "
               "recover(); a panic on an in-scope line is a violation. IRC.tla is total: TLC would report an unguarded branch.",
               "DESIGN.md §6 C06"),
    "C17": irc("C17", "LookupSound is evaluated by TLC on the real GetSession classification of every id 0..max+2 after every "
               "entry (every prefix of every history is a lagging node), EndedSessionGone and the recipient-exists predicate on "
               "every step; the expiry set is checked by a dedicated probe around the threshold. HTTP level (checks/irc_http.py): "
               "lookups, DELETE and 'receives nothing further' on the real long polls of a complete node. Expiry stage "
               "(checks/c17_expiry.py): design spec Expiry.tla (TLC exhaustive + liveness); the timer loop of main() on real 1- and "
               "3-node binaries driven through HTTP with the leader stopped/killed; recordings validated by TLC (ExpiryTrace.tla) "
               "with inferred sweep ticks. Lag stage (checks/c17_lag.py): Lag.tla (roles, applied prefixes, the three routes; TLC "
               "exhaustive + liveness); one node of a real 3-node network held back (fsm.apply gate / SIGSTOP) and queried as "
               "follower, leaderless follower, candidate, fresh leader; recordings validated by LagTrace.tla.", "DESIGN.md §6 C17, §11.2"),
    "C01": irc("C01", "K real replicas (different creation times, own output streams) are fed every history through the real "
               "FSM.applyRobustMessage in lock-step and compared byte for byte (ids, data, recipients; full reflection-based "
               "state); histories come from TLC (IRCMC simulation) and the seeded generator and are biased to >=2 pseudo-clients, "
               ">=2 members, >=2 bans. The verdict is a recorded trace field checked as a TLC invariant.", "DESIGN.md §6 C01"),
    "C03": irc("C03", "After EVERY entry of every history the direct-path replica is serialized and loaded into a fresh server; all "
               "restored copies then receive the rest of the history and are compared with the never-serialized replica "
               "(outputs to live sessions at every step, complete reflection-based state periodically and right after load). "
               "The verdict is a recorded trace field checked as a TLC invariant.", "DESIGN.md §6 C03"),
}

NA = {
    "C18": "pure encode/decode fidelity over byte strings: no state, transition or history for a TLA+ model to decide (DESIGN.md §8)",
}


def main():
    extra = {}
    p = os.path.join(HERE, "tools", "manifest_extra.json")
    if os.path.exists(p):
        extra = json.load(open(p))
    checks = dict(CHECKS)
    checks.update(extra.get("checks", {}))
    na = dict(NA)
    na.update(extra.get("not_applicable", {}))
    m = {
        "version": 1,
        "setup_cmd": "./setup.sh",
        "hooks": {
            "guard": "verif (Go build tag)",
            "enable": "go build/test -tags verif; harness files are injected with go's -overlay at check time, nothing else is written to /repo",
            "baseline_off_cmd": "cd /repo && GOFLAGS=-mod=mod GOPROXY=off GOSUMDB=off GOTOOLCHAIN=local go test -json -vet=off -count=1 -timeout 25m ./...",
            "source_commits": extra.get("hook_commits", ["2f6b889"]),
            "add_only": True,
        },
        "engines": extra.get("engines", []) + [
            {"name": "irc", "path": "/verif/checks/irc_common.py", "serves_properties": sorted(CHECKS),
             "kind_free_text": "IRC.tla/IRCProps.tla/IRCMC.tla/IRCTrace.tla + harness/irc (package main overlay) + harness/ircproj (projection)"},
        ],
        "checks": [checks[k] for k in sorted(checks)],
        "notes": "See DESIGN.md. Checks are ./check <ID> --tier quick|thorough; exit 0 held, 1 violation, 2 inconclusive.",
        "not_applicable": [{"property_id": p["id"], "reason": na.get(p["id"], "check not built yet (work in progress, DESIGN.md §9)")}
                           for p in props if p["id"] not in checks],
    }
    json.dump(m, open(os.path.join(HERE, "MANIFEST.json"), "w"), indent=1)
    print("claimed:", sorted(checks), "not applicable:", [x["property_id"] for x in m["not_applicable"]])


if __name__ == "__main__":
    main()
