"""Shared machinery for the /verif checks.

Every property check is a module checks/cNN.py exposing run(ctx) and using the
helpers here:

  ctx.tlc(...)            run TLC on a module of /verif/spec inside a scratch copy
  ctx.go_test(...)        run `go test` inside /repo with harness files injected
                          by -overlay (nothing is written to /repo)
  ctx.go_run_module(...)  build/run a standalone harness module that `replace`s
                          the repository module with /repo's working tree
  ctx.violation(...)      record a violation of the property predicate seen on the
                          real code (honours /verif/known_findings.json)
  ctx.drift(...)          real code disagrees with the implementation-level model
                          but every property predicate held (exit 0, reported)
  ctx.inconclusive(...)   machinery failure -> exit 2, never a violation
  ctx.finish(...)         writes /verif/evidence/<id>.json and exits

Exit codes: 0 held on everything explored (KNOWN-FINDING / DRIFT lines
possible), 1 violation (with `VIOLATION property=<id> replay=<path>`),
2 inconclusive / machinery failure.
"""
import json
import os
import re
import shutil
import subprocess
import sys
import tempfile
import time

VERIF = os.path.dirname(os.path.dirname(os.path.abspath(__file__)))
REPO = os.environ.get("VERIF_REPO", "/repo")
SPEC = os.path.join(VERIF, "spec")
HARNESS = os.path.join(VERIF, "harness")
# evidence/ and replays/ describe runs against /repo itself; runs against another checkout
# (VERIF_REPO=<scratch worktree>: seeded changes, mutations) write to *-alt/ (git-ignored)
_ALT = "" if os.path.realpath(REPO) == "/repo" else "-alt"
EVIDENCE = os.path.join(VERIF, "evidence" + _ALT)
REPLAYS = os.path.join(VERIF, "replays" + _ALT)
KNOWN = os.path.join(VERIF, "known_findings.json")
MODULE = "github.com/robustirc/robustirc"

GOENV = {
    "GOFLAGS": "-mod=mod",
    "GOPROXY": "off",
    "GOSUMDB": "off",
    "GOTOOLCHAIN": "local",
}


class Inconclusive(Exception):
    pass


def _env(extra=None):
    e = dict(os.environ)
    e.update(GOENV)
    if extra:
        e.update({k: str(v) for k, v in extra.items()})
    return e


def run(cmd, cwd=None, env=None, timeout=None, input=None):
    """Run a command, return (rc, stdout+stderr, timed_out)."""
    try:
        p = subprocess.run(cmd, cwd=cwd, env=env, timeout=timeout, input=input,
                           stdout=subprocess.PIPE, stderr=subprocess.STDOUT,
                           text=True, errors="replace")
        return p.returncode, p.stdout, False
    except subprocess.TimeoutExpired as ex:
        out = ex.stdout or ""
        if isinstance(out, bytes):
            out = out.decode("utf-8", "replace")
        return 124, out, True


class TLCResult:
    def __init__(self, rc, out, timed_out):
        self.rc = rc
        self.out = out
        self.timed_out = timed_out
        self.generated = 0
        self.distinct = 0
        self.depth = 0
        m = None
        for m in re.finditer(r"(\d+) states generated, (\d+) distinct states found", out):
            pass
        if m:
            self.generated = int(m.group(1))
            self.distinct = int(m.group(2))
        m = re.search(r"The depth of the complete state graph search is (\d+)", out)
        if m:
            self.depth = int(m.group(1))
        self.finished = "Model checking completed" in out or "Finished in" in out
        self.invariant_violated = None
        m = re.search(r"Invariant (\S+) is violated", out)
        if m:
            self.invariant_violated = m.group(1)
        m = re.search(r"Action property (\S+) is violated", out)
        if m:
            self.invariant_violated = m.group(1)
        if "Temporal properties were violated" in out:
            self.invariant_violated = self.invariant_violated or "<temporal>"
        self.deadlock = "Deadlock reached" in out
        self.error = ("Error:" in out) and not self.invariant_violated and not self.deadlock
        self.ok = (rc == 0) and self.finished and not self.invariant_violated and not self.error

    def printed(self, prefix=None):
        """Values printed by PrintT/Print (TLC prints them on their own lines)."""
        res = []
        for line in self.out.splitlines():
            if prefix is None or line.startswith(prefix):
                res.append(line)
        return res

    def coverage_zero(self):
        """Action/branch lines with zero hits from a -coverage run."""
        z = []
        for line in self.out.splitlines():
            if re.search(r":\s0$", line.strip()) and "line" in line:
                z.append(line.strip())
        return z


class Ctx:
    def __init__(self, pid, tier="quick", seed=None, level="model_checking"):
        self.id = pid
        self.tier = tier
        self.seed = int(seed if seed is not None else os.environ.get("VERIF_SEED", "1") or 1)
        self.level = level
        self.t0 = time.time()
        base = os.environ.get("TMPDIR") or "/tmp"
        self.scratch = tempfile.mkdtemp(prefix="verif-%s-" % pid.lower(), dir=base)
        self.violations = []
        self.known_hits = []
        self.drifts = []
        self.notes = []
        self.cov = {"samples": []}
        self.assumptions = []
        self._known = self._load_known()
        self.quick = (tier == "quick")

    # ------------------------------------------------------------------ util
    def log(self, *a):
        print("[%s %6.1fs]" % (self.id, time.time() - self.t0), *a, flush=True)

    def sub(self, name):
        d = os.path.join(self.scratch, name)
        os.makedirs(d, exist_ok=True)
        return d

    def cleanup(self):
        shutil.rmtree(self.scratch, ignore_errors=True)

    def sample(self, obj, limit=6):
        if len(self.cov["samples"]) < limit:
            self.cov["samples"].append(obj)

    def add(self, key, n=1):
        self.cov[key] = self.cov.get(key, 0) + n

    # ------------------------------------------------------------------ TLC
    def tlc(self, module, cfg=None, workers=None, simulate=None, depth=None,
            timeout=600, extra=None, files=None, deadlock=True, coverage=False,
            jvm=None, seed=None, name=None, dfs=False, heap=None):
        """Run TLC on spec/<module>.tla with spec/<cfg>. Returns TLCResult.

        files: {name: content-or-path} extra files placed next to the spec
        (trace ndjson, generated constant modules)."""
        work = self.sub(name or ("tlc-" + module + "-" + str(len(os.listdir(self.scratch)))))
        for f in os.listdir(SPEC):
            if f.endswith(".tla") or f.endswith(".cfg"):
                shutil.copy(os.path.join(SPEC, f), work)
        for fn, content in (files or {}).items():
            dst = os.path.join(work, fn)
            if isinstance(content, str) and os.path.exists(content) and "\n" not in content:
                shutil.copy(content, dst)
            else:
                with open(dst, "w") as fh:
                    fh.write(content)
        cfg = cfg or (module + ".cfg")
        if workers is None:
            workers = "auto"
        cmd = ["timeout", str(int(timeout)), "java"]
        cmd += ["-XX:+UseParallelGC", "-Xss256m", "-Djava.io.tmpdir=" + self.sub("jtmp")]
        if heap:
            cmd += ["-Xmx" + heap]
        if dfs:
            cmd += ["-Dtlc2.tool.queue.IStateQueue=StateDeque"]
        for j in (jvm or []):
            cmd.append(j)
        cmd += ["-cp", "/opt/veriftools/tla/tla2tools.jar:/opt/veriftools/tla/CommunityModules-deps.jar",
                "tlc2.TLC", "-metadir", os.path.join(work, "states"), "-workers", str(workers),
                "-config", cfg]
        if not deadlock:
            cmd += ["-deadlock"]
        if coverage:
            cmd += ["-coverage", "1"]
        if simulate is not None:
            cmd += ["-simulate", simulate]
            cmd += ["-seed", str(seed if seed is not None else self.seed)]
        if depth is not None:
            cmd += ["-depth", str(depth)]
        cmd += list(extra or [])
        cmd += [module + ".tla"]
        rc, out, to = run(cmd, cwd=work, timeout=timeout + 30)
        res = TLCResult(rc, out, to or rc == 124)
        res.workdir = work
        res.cmd = " ".join(cmd[2:])
        if simulate is not None and rc in (0, 124) and not res.invariant_violated and "Error:" not in out:
            # simulation ends by num= or by timeout; both are fine
            res.ok = True
        with open(os.path.join(work, "tlc.out"), "w") as fh:
            fh.write(out)
        shutil.rmtree(os.path.join(work, "states"), ignore_errors=True)
        return res

    def tlc_must_pass(self, *a, **kw):
        r = self.tlc(*a, **kw)
        if not r.ok:
            tail = "\n".join(r.out.splitlines()[-40:])
            raise Inconclusive("TLC did not pass on %s (%s): rc=%s timed_out=%s violated=%s\n%s" % (
                a[0], kw.get("cfg"), r.rc, r.timed_out, r.invariant_violated, tail))
        return r

    def pcal(self, module):
        rc, out, _ = run(["pcal", "-nocfg", module + ".tla"], cwd=SPEC, timeout=120)
        if rc != 0:
            raise Inconclusive("pcal failed: " + out)

    # ------------------------------------------------------------------ Go
    def overlay(self, mapping):
        """mapping: {path-relative-to-repo: absolute source path or literal content}.
        Returns path of overlay json."""
        rep = {}
        odir = self.sub("overlay")
        for rel, src in mapping.items():
            dst = os.path.join(REPO, rel)
            if os.path.exists(src) and "\n" not in src:
                rep[dst] = os.path.abspath(src)
            else:
                p = os.path.join(odir, rel.replace("/", "__"))
                with open(p, "w") as fh:
                    fh.write(src)
                rep[dst] = p
        ov = os.path.join(odir, "overlay-%d.json" % len(os.listdir(odir)))
        with open(ov, "w") as fh:
            json.dump({"Replace": rep}, fh)
        return ov

    def harness_overlay(self, pkgrel, hdir, extra=None):
        """Inject every *.go of harness/<hdir> into /repo/<pkgrel> (as zz_verif_<name>)."""
        m = {}
        src = os.path.join(HARNESS, hdir)
        for f in sorted(os.listdir(src)):
            if f.endswith(".go"):
                m[os.path.join(pkgrel, "zz_verif_" + f) if pkgrel else "zz_verif_" + f] = os.path.join(src, f)
        m.update(extra or {})
        return self.overlay(m)

    def go_test(self, pkg, overlay, run_re, env=None, timeout=600, args=None, tags="verif",
                race=False, extra_flags=None):
        """go test inside /repo with an overlay. Returns (rc, out)."""
        cmd = ["go", "test", "-vet=off", "-count=1", "-overlay", overlay, "-run", run_re,
               "-timeout", "%ds" % int(timeout)]
        if tags:
            cmd += ["-tags", tags]
        if race:
            cmd += ["-race"]
        cmd += list(extra_flags or [])
        cmd += [pkg]
        if args:
            cmd += ["-args"] + list(args)
        e = _env(env)
        e.setdefault("VERIF_SEED", str(self.seed))
        e.setdefault("VERIF_TIER", self.tier)
        e.setdefault("VERIF_SCRATCH", self.scratch)
        rc, out, to = run(cmd, cwd=REPO, env=e, timeout=timeout + 60)
        if to:
            raise Inconclusive("go test timed out: %s\n%s" % (" ".join(cmd), out[-3000:]))
        if "[build failed]" in out or "[setup failed]" in out or re.search(r"^# ", out, re.M) and "FAIL" in out and "--- FAIL" not in out and "panic:" not in out:
            raise Inconclusive("harness build failed:\n" + out[-6000:])
        return rc, out

    def go_build_test(self, pkg, overlay, outbin, tags="verif", race=False, timeout=600):
        """go test -c: build the test binary of a /repo package with overlay."""
        cmd = ["go", "test", "-vet=off", "-c", "-overlay", overlay, "-o", outbin]
        if tags:
            cmd += ["-tags", tags]
        if race:
            cmd += ["-race"]
        cmd += [pkg]
        rc, out, to = run(cmd, cwd=REPO, env=_env(), timeout=timeout)
        if rc != 0 or to:
            raise Inconclusive("harness build failed (%s):\n%s" % (" ".join(cmd), out[-6000:]))
        return outbin

    def go_build(self, pkg, outbin, overlay=None, tags="verif", race=False, timeout=600):
        cmd = ["go", "build", "-o", outbin]
        if overlay:
            cmd += ["-overlay", overlay]
        if tags:
            cmd += ["-tags", tags]
        if race:
            cmd += ["-race"]
        cmd += [pkg]
        rc, out, to = run(cmd, cwd=REPO, env=_env(), timeout=timeout)
        if rc != 0 or to:
            raise Inconclusive("build failed (%s):\n%s" % (" ".join(cmd), out[-6000:]))
        return outbin

    def run_bin(self, argv, env=None, timeout=600, cwd=None, input=None):
        e = _env(env)
        e.setdefault("VERIF_SEED", str(self.seed))
        e.setdefault("VERIF_TIER", self.tier)
        e.setdefault("VERIF_SCRATCH", self.scratch)
        rc, out, to = run(argv, cwd=cwd or self.scratch, env=e, timeout=timeout, input=input)
        if to:
            raise Inconclusive("harness timed out: %s\n%s" % (" ".join(argv), out[-3000:]))
        return rc, out

    # ------------------------------------------------------------------ verdicts
    def _load_known(self):
        try:
            with open(KNOWN) as fh:
                k = json.load(fh)
        except FileNotFoundError:
            return []
        return [f for f in k.get("findings", []) if f.get("property") == self.id and f.get("status") == "known"]

    def violation(self, signature, what, replay):
        """signature: short stable string identifying the failing input/call
        site/history class. A violation whose signature matches a *known*
        finding (regex in known_findings.json) is reported as KNOWN-FINDING."""
        for k in self._known:
            if re.search(k["signature"], signature):
                if k["signature"] not in [h["signature"] for h in self.known_hits]:
                    self.known_hits.append({"signature": k["signature"], "what": k.get("what", what)})
                    print("KNOWN-FINDING: property=%s %s" % (self.id, k.get("what", what)), flush=True)
                return False
        os.makedirs(os.path.join(REPLAYS, self.id), exist_ok=True)
        n = len(self.violations) + 1
        path = os.path.join(REPLAYS, self.id, "violation-%s-seed%d-%d.json" % (self.tier, self.seed, n))
        with open(path, "w") as fh:
            json.dump({"property": self.id, "signature": signature, "what": what, "replay": replay,
                       "tier": self.tier, "seed": self.seed}, fh, indent=1)
        self.violations.append({"signature": signature, "what": what, "path": path})
        if len(self.violations) <= 5:
            print("VIOLATION property=%s replay=%s" % (self.id, path), flush=True)
            print("  what: %s [%s]" % (what, signature), flush=True)
        return True

    def drift(self, what):
        self.drifts.append(what)
        if len(self.drifts) <= 10:
            print("DRIFT: property=%s %s" % (self.id, what), flush=True)

    def note(self, s):
        self.notes.append(s)

    def inconclusive(self, why):
        raise Inconclusive(why)

    def finish(self):
        wall = time.time() - self.t0
        cov = dict(self.cov)
        cov.setdefault("states", 0)
        cov.setdefault("transitions", 0)
        cov.setdefault("traces_validated_against_impl", 0)
        if not cov["samples"]:
            cov["samples"] = ["(no sample recorded)"]
        cov["conformance_divergences"] = len(self.drifts)
        cov["known_findings_hit"] = self.known_hits
        if self.drifts:
            cov["drift_examples"] = self.drifts[:10]
        if self.notes:
            cov["notes"] = self.notes
        ev = {
            "property_id": self.id,
            "tier": self.tier,
            "seed": self.seed,
            "level": self.level,
            "coverage": cov,
            "assumptions": self.assumptions,
            "wall_s": round(wall, 2),
            "violations": len(self.violations),
        }
        os.makedirs(EVIDENCE, exist_ok=True)
        with open(os.path.join(EVIDENCE, self.id + ".json"), "w") as fh:
            json.dump(ev, fh, indent=1, sort_keys=True)
        self.cleanup()
        if self.violations:
            print("RESULT %s: %d violation(s) in %.1fs" % (self.id, len(self.violations), wall))
            return 1
        print("RESULT %s: held on everything explored (%s tier, seed %d, %.1fs)%s" % (
            self.id, self.tier, self.seed, wall,
            "; known findings: %d" % len(self.known_hits) if self.known_hits else ""))
        return 0


def read_ndjson(path):
    res = []
    with open(path) as fh:
        for line in fh:
            line = line.strip()
            if line:
                res.append(json.loads(line))
    return res


def write_ndjson(path, recs):
    with open(path, "w") as fh:
        for r in recs:
            fh.write(json.dumps(r, sort_keys=True, separators=(",", ":")) + "\n")


def main(run_fn, pid, level="model_checking"):
    import argparse
    ap = argparse.ArgumentParser()
    ap.add_argument("--tier", default=os.environ.get("VERIF_TIER", "quick"))
    ap.add_argument("--replay", default=None)
    ap.add_argument("--selftest", action="store_true")
    a = ap.parse_args(sys.argv[2:] if len(sys.argv) > 1 and not sys.argv[1].startswith("-") else sys.argv[1:])
    tier = a.tier if a.tier in ("quick", "thorough") else "quick"
    ctx = Ctx(pid, tier=tier, level=level)
    ctx.replay = a.replay
    ctx.selftest = a.selftest
    try:
        run_fn(ctx)
        rc = ctx.finish()
    except Inconclusive as ex:
        if ctx.violations:
            # a violation established on the real code stands; a machinery problem that shows up afterwards is
            # recorded, it does not turn exit 1 into exit 2 (and exit 2 never comes with a VIOLATION line)
            ctx.note("machinery problem after a violation was established: %s" % str(ex)[:600])
            print("NOTE %s: machinery problem after a violation was established: %s" % (pid, str(ex)[:300]), flush=True)
            rc = ctx.finish()
        else:
            print("INCONCLUSIVE %s: %s" % (pid, ex), flush=True)
            ctx.cleanup()
            rc = 2
    except Exception:
        import traceback
        traceback.print_exc()
        print("INCONCLUSIVE %s: machinery exception" % pid, flush=True)
        ctx.cleanup()
        rc = 2
    sys.exit(rc)
